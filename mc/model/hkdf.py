"""Reference model: HMAC-SHA256 (RFC 2104, written out on hashlib.sha256), HKDF (RFC 5869) and
the KeyGen procedure of draft-irtf-cfrg-bls-signature-04 section 2.3.  No py_ecc code."""
import hashlib

from .params import BLS_R


def hmac_sha256(key, msg):
    key, msg = bytes(key), bytes(msg)
    if len(key) > 64:
        key = hashlib.sha256(key).digest()
    key = key + b"\x00" * (64 - len(key))
    return hashlib.sha256(bytes(b ^ 0x5C for b in key)
                          + hashlib.sha256(bytes(b ^ 0x36 for b in key) + msg).digest()).digest()


def extract(salt, ikm):
    """RFC 5869 2.2: PRK = HMAC-Hash(salt, IKM)   (an empty salt equals HashLen zero bytes
    under HMAC's key padding)"""
    return hmac_sha256(salt, ikm)


def expand(prk, info, length):
    """RFC 5869 2.3; L <= 255 * HashLen"""
    if length > 255 * 32:
        raise ValueError("L too large")
    t = b""
    okm = b""
    i = 0
    while len(okm) < length:
        i += 1
        t = hmac_sha256(prk, t + bytes(info) + bytes([i]))
        okm += t
    return okm[:length]


def keygen(ikm, key_info=b""):
    """draft v4 2.3:
        salt = "BLS-SIG-KEYGEN-SALT-"; SK = 0
        while SK == 0:
            salt = H(salt)
            PRK = HKDF-Extract(salt, IKM || I2OSP(0, 1))
            OKM = HKDF-Expand(PRK, key_info || I2OSP(L, 2), L)      L = ceil((3 * ceil(log2(r))) / 16) = 48
            SK = OS2IP(OKM) mod r
    """
    L = 48
    salt = b"BLS-SIG-KEYGEN-SALT-"
    sk = 0
    while sk == 0:
        salt = hashlib.sha256(salt).digest()
        prk = extract(salt, bytes(ikm) + b"\x00")
        okm = expand(prk, bytes(key_info) + L.to_bytes(2, "big"), L)
        sk = int.from_bytes(okm, "big") % BLS_R
    return sk


def selfcheck():
    h = bytes.fromhex
    # RFC 5869 A.1
    prk = extract(h("000102030405060708090a0b0c"), h("0b" * 22))
    assert prk.hex() == "077709362c2e32df0ddc3f0dc47bba6390b6c73bb50f9c3122ec844ad7c2b3e5"
    assert expand(prk, h("f0f1f2f3f4f5f6f7f8f9"), 42).hex() == (
        "3cb25f25faacd57a90434f64d0362f2a2d2d0a90cf1a5a4c5db02d56ecc4c5bf34007208d5b887185865")
    # RFC 5869 A.2
    ikm = bytes(range(0x00, 0x50))
    salt = bytes(range(0x60, 0xB0))
    info = bytes(range(0xB0, 0x100))
    prk = extract(salt, ikm)
    assert prk.hex() == "06a6b88c5853361a06104c9ceb35b45cef760014904671014a193f40c15fc244"
    assert expand(prk, info, 82).hex() == (
        "b11e398dc80327a1c8e7f78c596a49344f012eda2d4efad8a050cc4c19afa97c59045a99cac7827271cb41c65e590e09"
        "da3275600c2f09b8367793a9aca3db71cc30c58179ec3e87c14c01d5c1f3434f1d87")
    # RFC 5869 A.3 (empty salt and info)
    prk = extract(b"", h("0b" * 22))
    assert prk.hex() == "19ef24a32c717b167f33a91d6f648bdf96596776afdb6377ac434c1c293ccb04"
    assert expand(prk, b"", 42).hex() == (
        "8da4e775a563c18f715f802a063c5a31b8a11f5c5ee1879ec3454e5f3c738d2d9d201395faa4b61a96c8")
    # EIP-2333 test case 0: master key of the published seed (KeyGen == derive_master_SK)
    seed = h("c55257c360c07c72029aebc1b53c05ed0362ada38ead3e3e9efa3708e53495531f09a6987599d18264c1e1c92f2cf1"
             "41630c7a3c4ab7c81b2f001698e7463b04")
    assert keygen(seed) == 6083874454709270928345386274498605044986640685124978867557563392430687146096
    # cross-check with the standard library's hmac (an independent implementation)
    import hmac as _h

    for k, m in ((b"", b""), (b"a" * 63, b"x"), (b"a" * 64, b"x" * 64), (b"a" * 65, b"x" * 200)):
        assert hmac_sha256(k, m) == _h.new(k, m, hashlib.sha256).digest()
    return True

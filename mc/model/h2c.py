"""Reference model of RFC 9380 for the suites BLS12381G1_XMD:SHA-256_SSWU_RO_ and
BLS12381G2_XMD:SHA-256_SSWU_RO_: expand_message_xmd (5.3.1), hash_to_field (5.2), the
straight-line simplified SWU map (6.6.2) on the isogenous curves, the isogeny maps (appendix
E, coefficient tables from golden/constants.json, validated below), cofactor clearing by
h_eff (8.8).  Plain ints / tuples; no py_ecc code."""
import functools
import hashlib
import json
import os

from . import params
from .zp import Fp, Fpk
from .ec import Curve

P = params.BLS_P
F1 = Fp(P)
F2 = Fpk(P, (1, 0))
L = 64  # ceil((ceil(log2(p)) + k) / 8), k = 128

_ROOT = os.path.dirname(os.path.dirname(os.path.dirname(os.path.abspath(__file__))))


@functools.lru_cache(None)
def golden():
    with open(os.path.join(_ROOT, "golden", "constants.json")) as f:
        return json.load(f)


# ------------------------------------------------------------------ 5.3.1
def expand_message_xmd(msg, dst, len_in_bytes, hname="sha256"):
    """RFC 9380 5.3.1; raises ValueError where the RFC says ABORT"""
    if callable(hname):  # a hash constructor with its parameters baked in (e.g. a partial of blake2b)
        H = lambda b: hname(b).digest()  # noqa: E731
        probe = hname()
    else:
        H = lambda b: hashlib.new(hname, b).digest()  # noqa: E731
        probe = hashlib.new(hname)
    b_in_bytes, s_in_bytes = probe.digest_size, probe.block_size
    ell = -(-len_in_bytes // b_in_bytes)
    if ell > 255 or len_in_bytes > 65535 or len(dst) > 255:
        raise ValueError("abort")
    dst_prime = dst + bytes([len(dst)])
    z_pad = bytes(s_in_bytes)
    l_i_b_str = len_in_bytes.to_bytes(2, "big")
    b0 = H(z_pad + msg + l_i_b_str + b"\x00" + dst_prime)
    bi = H(b0 + b"\x01" + dst_prime)
    out = bi
    n0 = int.from_bytes(b0, "big")
    for i in range(2, ell + 1):
        x = (n0 ^ int.from_bytes(bi, "big")).to_bytes(b_in_bytes, "big")
        bi = H(x + bytes([i]) + dst_prime)
        out += bi
    return out[:len_in_bytes]


@functools.lru_cache(None)
def leading_zero_message(dst, len_in_bytes, hname="sha256"):
    """a message for which b_0 and at least one of b_1 .. b_(ell-1) of expand_message_xmd both start with a
    zero byte (their XOR, taken as an integer, loses a byte): found by search, about 2^16 / ell tries"""
    probe = hashlib.new(hname)
    b_in, s_in = probe.digest_size, probe.block_size
    ell = -(-len_in_bytes // b_in)
    dst_prime = dst + bytes([len(dst)])
    for i in range(4000000):
        msg = b"leading-zero-%d" % i
        b0 = hashlib.new(hname, bytes(s_in) + msg + len_in_bytes.to_bytes(2, "big") + b"\x00" + dst_prime).digest()
        if b0[0]:
            continue
        bi = hashlib.new(hname, b0 + b"\x01" + dst_prime).digest()
        n0 = int.from_bytes(b0, "big")
        for j in range(2, ell + 1):
            if bi[0] == 0:
                return msg
            x = (n0 ^ int.from_bytes(bi, "big")).to_bytes(b_in, "big")
            bi = hashlib.new(hname, x + bytes([j]) + dst_prime).digest()
    raise RuntimeError("no message found")


# ------------------------------------------------------------------ 5.2
def hash_to_field(msg, count, dst, m, hname="sha256"):
    """tuple of `count` elements, each an int (m == 1) or an m-tuple of ints"""
    uniform = expand_message_xmd(msg, dst, count * m * L, hname)
    out = []
    for i in range(count):
        e = []
        for j in range(m):
            off = L * (j + i * m)
            e.append(int.from_bytes(uniform[off:off + L], "big") % P)
        out.append(e[0] if m == 1 else tuple(e))
    return tuple(out)


# ------------------------------------------------------------------ 4.1
def sgn0(x):
    """RFC 9380 4.1 for an int (m = 1) or a coefficient tuple (any m)"""
    if isinstance(x, int):
        return x % P % 2
    sign, zero = 0, 1
    for xi in x:
        xi %= P
        sign_i = xi % 2
        zero_i = 1 if xi == 0 else 0
        sign = sign | (zero & sign_i)
        zero = zero & zero_i
    return sign


def sgn0_any(x, p):
    """same for any characteristic (used by C14 on tiny fields)"""
    if isinstance(x, int):
        return x % p % 2
    sign, zero = 0, 1
    for xi in x:
        xi %= p
        sign = sign | (zero & (xi % 2))
        zero = zero & (1 if xi == 0 else 0)
    return sign


# ------------------------------------------------------------------ 6.6.2 simplified SWU
class Suite:
    def __init__(self, F, A, B, Z, iso, E, heff):
        self.F, self.A, self.B, self.Z, self.iso, self.E, self.heff = F, A, B, Z, iso, E, heff
        self.Eiso = Curve(F, A, B)

    def is_square(self, a):
        return self.F.sqrt(a) is not None

    def sswu(self, u):
        """(x, y) on the isogenous curve E': y^2 = x^3 + A x + B, and the branch taken"""
        F, A, B, Z = self.F, self.A, self.B, self.Z
        u = F.el(u)
        u2 = F.mul(u, u)
        zu2 = F.mul(Z, u2)
        tv1 = F.add(F.mul(zu2, zu2), zu2)
        tv1 = F.inv(tv1) if not F.is_zero(tv1) else F.zero  # inv0
        if F.is_zero(tv1):
            x1 = F.div(B, F.mul(Z, A))
            branch = "exceptional"
        else:
            x1 = F.mul(F.div(F.neg(B), A), F.add(F.one, tv1))
            branch = "regular"
        gx1 = F.add(F.add(F.mul(F.mul(x1, x1), x1), F.mul(A, x1)), B)
        x2 = F.mul(zu2, x1)
        gx2 = F.add(F.add(F.mul(F.mul(x2, x2), x2), F.mul(A, x2)), B)
        y1 = F.sqrt(gx1)
        if y1 is not None:
            x, y = x1, y1
            branch += ":gx1-square"
        else:
            x, y = x2, F.sqrt(gx2)
            branch += ":gx2-square"
            assert y is not None
        if sgn0(u) != sgn0(y):
            y = F.neg(y)
        return (x, y), branch

    def iso_map(self, Pt):
        """appendix E: rational map E' -> E; None (identity) when a denominator vanishes"""
        F = self.F
        x, y = Pt

        def ev(cs):
            acc = F.zero
            for c in reversed(cs):
                acc = F.add(F.mul(acc, x), F.el(c))
            return acc

        xn, xd, yn, yd = (ev(cs) for cs in self.iso)
        if F.is_zero(xd) or F.is_zero(yd):
            return None
        return (F.div(xn, xd), F.mul(y, F.div(yn, yd)))

    def map_to_curve(self, u):
        Q, br = self.sswu(u)
        return self.iso_map(Q), br

    def clear_cofactor(self, Pt):
        return self.E.mul(Pt, self.heff)


@functools.lru_cache(None)
def g1():
    g = golden()
    iso = [list(row) for row in g["ISO_11_MAP"]]
    return Suite(F1, g["ISO_11_A"], g["ISO_11_B"], 11, iso, Curve(F1, 0, params.BLS_B), params.BLS_HEFF_G1)


@functools.lru_cache(None)
def g2():
    g = golden()
    iso = [[tuple(c) for c in row] for row in g["ISO_3_MAP"]]
    # RFC 9380 8.8.2: A' = 240 * I, B' = 1012 * (1 + I), Z = -(2 + I)
    return Suite(F2, (0, 240), (1012, 1012), ((-2) % P, (-1) % P), iso,
                 Curve(F2, 0, params.bls_b2()), params.BLS_HEFF_G2)


# ---------------------------------------------------------------------------------------------
# inputs u whose simplified-SWU image lies in the kernel of the isogeny (the isogeny's rational map
# is undefined there; RFC 9380 appendix E / section 4: the result is the identity).  Found by
# factoring the x-denominator of the isogeny over the field and inverting SWU; every candidate is
# kept only if this model's map_to_curve says "identity".
def _ptrim(F, a):
    while a and F.is_zero(a[-1]):
        a = a[:-1]
    return a


def _pmulmod(F, a, b, f):
    out = [F.zero] * (len(a) + len(b) - 1) if a and b else []
    for i, x in enumerate(a):
        if F.is_zero(x):
            continue
        for j, y in enumerate(b):
            out[i + j] = F.add(out[i + j], F.mul(x, y))
    return _pmod(F, out, f)


def _pmod(F, a, f):
    a = _ptrim(F, list(a))
    d = len(f) - 1
    li = F.inv(f[-1])
    while len(a) - 1 >= d and a:
        c = F.mul(a[-1], li)
        sh = len(a) - 1 - d
        for i, y in enumerate(f):
            a[sh + i] = F.sub(a[sh + i], F.mul(c, y))
        a = _ptrim(F, a)
    return a


def _pgcd(F, a, b):
    a, b = _ptrim(F, list(a)), _ptrim(F, list(b))
    while b:
        a, b = b, _pmod(F, a, b)
    if a:
        li = F.inv(a[-1])
        a = [F.mul(x, li) for x in a]
    return a


def _ppowmod(F, base, n, f):
    out, b = [F.one], _pmod(F, base, f)
    while n:
        if n & 1:
            out = _pmulmod(F, out, b, f)
        b = _pmulmod(F, b, b, f)
        n >>= 1
    return out


def _pdiv_exact(F, a, b):
    a = list(a)
    q = [F.zero] * (len(a) - len(b) + 1)
    li = F.inv(b[-1])
    for k in range(len(q) - 1, -1, -1):
        c = F.mul(a[k + len(b) - 1], li)
        q[k] = c
        for i, y in enumerate(b):
            a[k + i] = F.sub(a[k + i], F.mul(c, y))
    assert not _ptrim(F, a)
    return q


def poly_roots(F, q, f):
    """all roots in F (a field with q elements) of the polynomial f (ascending coefficients)"""
    f = _ptrim(F, [F.el(c) for c in f])
    if len(f) <= 1:
        return []
    xq = _ppowmod(F, [F.zero, F.one], q, f)
    xq_minus_x = list(xq) + [F.zero] * max(0, 2 - len(xq))
    xq_minus_x[1] = F.sub(xq_minus_x[1], F.one)
    g = _pgcd(F, f, _ptrim(F, xq_minus_x))
    roots, todo, a = [], [g] if len(g) > 1 else [], 0
    while todo:
        h = todo.pop()
        if len(h) == 2:
            roots.append(F.neg(F.div(h[0], h[1])))
            continue
        while True:
            a += 1
            t = _ppowmod(F, [F.el(a) if not isinstance(F.zero, tuple) else F.el((a, a * a + 1)), F.one], (q - 1) // 2, h)
            t = list(t) + [F.zero] * max(0, 1 - len(t))
            t[0] = F.sub(t[0], F.one)
            d = _pgcd(F, h, _ptrim(F, t))
            if 1 < len(d) < len(h):
                todo += [d, _pdiv_exact(F, h, d)]
                break
            assert a < 200
    return roots


@functools.lru_cache(None)
def kernel_inputs(group):
    """sorted list of all u with map_to_curve(u) == identity for the G1 ("E1") / G2 ("E2") suite"""
    S = g1() if group == "E1" else g2()
    F = S.F
    q = P if group == "E1" else P * P
    A, B, Z = F.el(S.A), F.el(S.B), F.el(S.Z)
    xs = set(poly_roots(F, q, S.iso[1])) | set(poly_roots(F, q, S.iso[3]))
    two, four = F.el(2), F.el(4)
    cands = set()
    for xk in xs:
        t = F.mul(xk, F.div(F.neg(A), B))  # x_k = (-B/A) * t
        ws = []
        # x1(u) = x_k:  1 + 1/(w^2 + w) = t  with w = Z u^2
        if not F.is_zero(F.sub(t, F.one)):
            c = F.inv(F.sub(t, F.one))
            disc = F.sqrt(F.add(F.one, F.mul(four, c)))
            if disc is not None:
                ws += [F.div(F.add(F.neg(F.one), sg), two) for sg in (disc, F.neg(disc))]
        # x2(u) = w * x1(u) = x_k:  w^2 + (1 - t) w + (1 - t) = 0
        b1 = F.sub(F.one, t)
        disc = F.sqrt(F.sub(F.mul(b1, b1), F.mul(four, b1)))
        if disc is not None:
            ws += [F.div(F.add(F.neg(b1), sg), two) for sg in (disc, F.neg(disc))]
        for w in ws:
            ru = F.sqrt(F.div(w, Z))
            if ru is not None:
                cands |= {ru, F.neg(ru)}
    return sorted(u for u in cands if S.map_to_curve(u)[0] is None), len(xs)


def hash_to_curve(suite, msg, dst, hname="sha256"):
    S = g1() if suite == "G1" else g2()
    u0, u1 = hash_to_field(msg, 2, dst, 1 if suite == "G1" else 2, hname)
    q0, _ = S.map_to_curve(u0)
    q1, _ = S.map_to_curve(u1)
    return S.clear_cofactor(S.E.add(q0, q1))


def hash_to_G2(msg, dst, hname="sha256"):
    return hash_to_curve("G2", msg, dst, hname)


def hash_to_G1(msg, dst, hname="sha256"):
    return hash_to_curve("G1", msg, dst, hname)


# ------------------------------------------------------------------ anchors
DST_G1 = b"QUUX-V01-CS02-with-BLS12381G1_XMD:SHA-256_SSWU_RO_"
DST_G2 = b"QUUX-V01-CS02-with-BLS12381G2_XMD:SHA-256_SSWU_RO_"
# RFC 9380 appendix J.9.1 (G1) / J.10.1 (G2): P.x, P.y
VEC_G1 = {
    b"": (0x052926ADD2207B76CA4FA57A8734416C8DC95E24501772C814278700EED6D1E4E8CF62D9C09DB0FAC349612B759E79A1,
          0x08BA738453BFED09CB546DBB0783DBB3A5F1F566ED67BB6BE0E8C67E2E81A4CC68EE29813BB7994998F3EAE0C9C6A265),
    b"abc": (0x03567BC5EF9C690C2AB2ECDF6A96EF1C139CC0B2F284DCA0A9A7943388A49A3AEE664BA5379A7655D3C68900BE2F6903,
             0x0B9C15F3FE6E5CF4211F346271D7B01C8F3B28BE689C8429C85B67AF215533311F0B8DFAAA154FA6B88176C229F2885D),
    b"abcdef0123456789": (
        0x11E0B079DEA29A68F0383EE94FED1B940995272407E3BB916BBF268C263DDD57A6A27200A784CBC248E84F357CE82D98,
        0x03A87AE2CAF14E8EE52E51FA2ED8EEFE80F02457004BA4D486D6AA1F517C0889501DC7413753F9599B099EBCBBD2D709),
}
VEC_G2 = {
    b"": ((0x0141EBFBDCA40EB85B87142E130AB689C673CF60F1A3E98D69335266F30D9B8D4AC44C1038E9DCDD5393FAF5C41FB78A,
           0x05CB8437535E20ECFFAEF7752BADDF98034139C38452458BAEEFAB379BA13DFF5BF5DD71B72418717047F5B0F37DA03D),
          (0x0503921D7F6A12805E72940B963C0CF3471C7B2A524950CA195D11062EE75EC076DAF2D4BC358C4B190C0C98064FDD92,
           0x12424AC32561493F3FE3C260708A12B7C620E7BE00099A974E259DDC7D1F6395C3C811CDD19F1E8DBF3E9ECFDCBAB8D6)),
    b"abc": ((0x02C2D18E033B960562AAE3CAB37A27CE00D80CCD5BA4B7FE0E7A210245129DBEC7780CCC7954725F4168AFF2787776E6,
              0x139CDDBCCDC5E91B9623EFD38C49F81A6F83F175E80B06FC374DE9EB4B41DFE4CA3A230ED250FBE3A2ACF73A41177FD8),
             (0x1787327B68159716A37440985269CF584BCB1E621D3A7202BE6EA05C4CFE244AEB197642555A0645FB87BF7466B2BA48,
              0x00AA65DAE3C8D732D10ECD2C50F8A1BAF3001578F71C694E03866E9F3D49AC1E1CE70DD94A733534F106D4CEC0EDDD16)),
}
# RFC 9380 appendix K.1 (expand_message_xmd, SHA-256), DST = "QUUX-V01-CS02-with-expander-SHA256-128"
XMD_DST = b"QUUX-V01-CS02-with-expander-SHA256-128"
VEC_XMD = [
    (b"", 0x20, "68a985b87eb6b46952128911f2a4412bbc302a9d759667f87f7a21d803f07235"),
    (b"abc", 0x20, "d8ccab23b5985ccea865c6c97b6e5b8350e794e603b4b97902f53a8a0d605615"),
]


def selfcheck():
    import random

    for msg, n, want in VEC_XMD:
        assert expand_message_xmd(msg, XMD_DST, n).hex() == want, msg
    g = random.Random(20260930)
    for S, h in ((g1(), params.BLS_H1), (g2(), params.BLS_H2)):
        F, E, Ei = S.F, S.E, S.Eiso
        # (1) E' is isogenous to E: same group order h * r (random points are killed by it)
        pts = []
        x = 1
        while len(pts) < 6:
            xx = x if F is F1 else (x, g.randrange(P))
            pts += Ei.lift_x(xx)[:1]
            x += 1
        for Q in pts[:3]:
            assert Ei.on_curve(Q) and Ei.mul(Q, h * params.BLS_R) is None
        # (2) the map sends E' to E, (3) and is additive
        imgs = [S.iso_map(Q) for Q in pts]
        for I in imgs:
            assert I is not None and E.on_curve(I)
        for i in range(0, 4):
            s = Ei.add(pts[i], pts[i + 1])
            assert S.iso_map(s) == E.add(imgs[i], imgs[i + 1])
        assert S.iso_map(Ei.double(pts[0])) == E.double(imgs[0])
        # (4) SSWU output is on E' and has the sign of u
        for _ in range(4):
            u = g.randrange(P) if F is F1 else (g.randrange(P), g.randrange(P))
            Q, _b = S.sswu(u)
            assert Ei.on_curve(Q) and sgn0(Q[1]) == sgn0(u)
        Q, b = S.sswu(F.zero)
        assert b.startswith("exceptional") and Ei.on_curve(Q)
    # (5) RFC 9380 vectors, whole pipeline
    for m, v in VEC_G1.items():
        assert hash_to_G1(m, DST_G1) == v, m
    for m, v in VEC_G2.items():
        assert hash_to_G2(m, DST_G2) == v, m
    return True

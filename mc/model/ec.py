"""Reference model: affine chord-and-tangent group law on y^2 = x^3 + a x + b over a zp
field model.  Points are (x, y) tuples of model field elements, None is infinity."""


class Curve:
    def __init__(self, F, a, b):
        self.F = F
        self.a = F.el(a)
        self.b = F.el(b)

    def on_curve(self, P):
        if P is None:
            return True
        F = self.F
        x, y = P
        rhs = F.add(F.add(F.mul(F.mul(x, x), x), F.mul(self.a, x)), self.b)
        return F.mul(y, y) == rhs

    def neg(self, P):
        if P is None:
            return None
        return (P[0], self.F.neg(P[1]))

    def add(self, P, Q):
        F = self.F
        if P is None:
            return Q
        if Q is None:
            return P
        x1, y1 = P
        x2, y2 = Q
        if x1 == x2:
            if F.is_zero(F.add(y1, y2)):
                return None
            # doubling (y1 == y2 != 0)
            num = F.add(F.smul(F.mul(x1, x1), 3), self.a)
            den = F.smul(y1, 2)
        else:
            num = F.sub(y2, y1)
            den = F.sub(x2, x1)
        m = F.div(num, den)
        x3 = F.sub(F.sub(F.mul(m, m), x1), x2)
        y3 = F.sub(F.mul(m, F.sub(x1, x3)), y1)
        return (x3, y3)

    def double(self, P):
        return self.add(P, P)

    def mul_affine(self, P, n):
        """the n-fold sum by the affine law only (the specification of mul)"""
        if n < 0:
            return self.mul_affine(self.neg(P), -n)
        R = None
        Q = P
        while n:
            if n & 1:
                R = self.add(R, Q)
            n >>= 1
            if n:
                Q = self.add(Q, Q)
        return R

    def mul(self, P, n):
        """n-fold sum.  Small fields: the affine law itself.  Large fields (one affine step costs
        a ~0.4 ms modular inversion): an inversion-free Jacobian ladder, which selfcheck()
        validates against mul_affine exhaustively on small curves and on seeded scalars at
        full size - the affine law stays the definition."""
        if self.F.p < (1 << 64):
            return self.mul_affine(P, n)
        return self.mul_jacobian(P, n)

    # -- Jacobian coordinates (X, Y, Z) ~ (X/Z^2, Y/Z^3); None = infinity
    def _jdbl(self, T):
        F = self.F
        if T is None:
            return None
        X, Y, Z = T
        if F.is_zero(Y):
            return None
        Y2 = F.mul(Y, Y)
        S = F.smul(F.mul(X, Y2), 4)
        M = F.smul(F.mul(X, X), 3)
        if not F.is_zero(self.a):
            Z2 = F.mul(Z, Z)
            M = F.add(M, F.mul(self.a, F.mul(Z2, Z2)))
        X3 = F.sub(F.mul(M, M), F.smul(S, 2))
        Y3 = F.sub(F.mul(M, F.sub(S, X3)), F.smul(F.mul(Y2, Y2), 8))
        return (X3, Y3, F.smul(F.mul(Y, Z), 2))

    def _jadd_affine(self, T, Q):
        """T (Jacobian) + Q (affine, not infinity)"""
        F = self.F
        if T is None:
            return (Q[0], Q[1], F.one)
        X1, Y1, Z1 = T
        Z1Z1 = F.mul(Z1, Z1)
        U2 = F.mul(Q[0], Z1Z1)
        S2 = F.mul(Q[1], F.mul(Z1, Z1Z1))
        if U2 == X1:
            if S2 != Y1:
                return None
            return self._jdbl(T)
        H = F.sub(U2, X1)
        Rr = F.sub(S2, Y1)
        H2 = F.mul(H, H)
        H3 = F.mul(H, H2)
        V = F.mul(X1, H2)
        X3 = F.sub(F.sub(F.mul(Rr, Rr), H3), F.smul(V, 2))
        Y3 = F.sub(F.mul(Rr, F.sub(V, X3)), F.mul(Y1, H3))
        return (X3, Y3, F.mul(Z1, H))

    def mul_jacobian(self, P, n):
        if n < 0:
            return self.mul_jacobian(self.neg(P), -n)
        if P is None or n == 0:
            return None
        F = self.F
        P = (F.el(P[0]), F.el(P[1]))
        T = None
        for bit in bin(n)[2:]:
            T = self._jdbl(T)
            if bit == "1":
                T = self._jadd_affine(T, P)
        if T is None:
            return None
        iz = F.inv(T[2])
        iz2 = F.mul(iz, iz)
        return (F.mul(T[0], iz2), F.mul(T[1], F.mul(iz2, iz)))

    def points(self):
        """All affine points (brute force; tiny fields only), infinity not included."""
        F = self.F
        els = list(F.elems())
        sq = {}
        for y in els:
            sq.setdefault(F.mul(y, y), []).append(y)
        out = []
        for x in els:
            rhs = F.add(F.add(F.mul(F.mul(x, x), x), F.mul(self.a, x)), self.b)
            for y in sq.get(rhs, ()):
                out.append((x, y))
        return out

    def order_of(self, P, group_order):
        """Order of P given the group order (tiny groups: by trial of divisors)."""
        divs = [d for d in range(1, group_order + 1) if group_order % d == 0]
        for d in divs:
            if self.mul(P, d) is None:
                return d
        raise AssertionError("order does not divide group order")

    def lift_x(self, x):
        """Points with the given x (0, 1 or 2)."""
        F = self.F
        rhs = F.add(F.add(F.mul(F.mul(x, x), x), F.mul(self.a, x)), self.b)
        y = F.sqrt(rhs)
        if y is None:
            return []
        ny = F.neg(y)
        return [(x, y)] if ny == y else [(x, y), (x, ny)]


def selfcheck():
    """Exhaustive associativity / closure self-check of the model on small curves."""
    from .zp import Fp, Fpk

    for F, b in ((Fp(5), 1), (Fp(7), 3), (Fp(11), 2), (Fp(13), 5), (Fpk(5, (2, 0)), (1, 1))):
        E = Curve(F, 0, b)
        pts = [None] + E.points()
        n = len(pts)
        for P in pts:
            assert E.on_curve(P)
            assert E.mul(P, n) is None
            for k in range(-3, 2 * n + 3):
                assert E.mul_jacobian(P, k) == E.mul_affine(P, k), (b, P, k)
            assert E.add(P, E.neg(P)) is None
            for Q in pts:
                S = E.add(P, Q)
                assert E.on_curve(S) and S == E.add(Q, P)
                for T in pts:
                    assert E.add(S, T) == E.add(P, E.add(Q, T))
    # the Jacobian ladder against the affine law: curves with a != 0, and full size (seeded
    # scalars on both pairing curves incl. a non-subgroup point, and secp256k1)
    import random

    from . import params

    g = random.Random(99)
    for F, a, b in ((Fp(13), 2, 3), (Fp(17), 5, 1), (Fpk(5, (2, 0)), (1, 2), (0, 1))):
        E = Curve(F, a, b)
        pts = [None] + E.points()
        for P in pts:
            for k in range(0, 2 * len(pts) + 2):
                assert E.mul_jacobian(P, k) == E.mul_affine(P, k)
    d = params.curves()
    cases = [(d["bls12_381"]["E1"], d["bls12_381"]["G1"]), (d["bls12_381"]["E2"], d["bls12_381"]["G2"]),
             (d["bn128"]["E1"], d["bn128"]["G1"]), (d["bn128"]["E2"], d["bn128"]["G2"]),
             (Curve(Fp(params.SECP_P), 0, 7), (params.SECP_GX, params.SECP_GY))]
    for E, G in cases:
        for k in (1, 2, 3, g.getrandbits(64), g.getrandbits(255), g.getrandbits(400)):
            assert E.mul_jacobian(G, k) == E.mul_affine(G, k)
    E = d["bls12_381"]["E1"]
    Q = E.lift_x(0)[0]  # order 3, outside the subgroup
    for k in range(0, 8):
        assert E.mul_jacobian(Q, k) == E.mul_affine(Q, k)
    return True

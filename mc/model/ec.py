"""Reference model: affine chord-and-tangent group law on y^2 = x^3 + a x + b over a zp
field model.  Points are (x, y) tuples of model field elements, None is infinity."""


class Curve:
    def __init__(self, F, a, b):
        self.F = F
        self.a = F.el(a)
        self.b = F.el(b)

    def on_curve(self, P):
        if P is None:
            return True
        F = self.F
        x, y = P
        rhs = F.add(F.add(F.mul(F.mul(x, x), x), F.mul(self.a, x)), self.b)
        return F.mul(y, y) == rhs

    def neg(self, P):
        if P is None:
            return None
        return (P[0], self.F.neg(P[1]))

    def add(self, P, Q):
        F = self.F
        if P is None:
            return Q
        if Q is None:
            return P
        x1, y1 = P
        x2, y2 = Q
        if x1 == x2:
            if F.is_zero(F.add(y1, y2)):
                return None
            # doubling (y1 == y2 != 0)
            num = F.add(F.smul(F.mul(x1, x1), 3), self.a)
            den = F.smul(y1, 2)
        else:
            num = F.sub(y2, y1)
            den = F.sub(x2, x1)
        m = F.div(num, den)
        x3 = F.sub(F.sub(F.mul(m, m), x1), x2)
        y3 = F.sub(F.mul(m, F.sub(x1, x3)), y1)
        return (x3, y3)

    def double(self, P):
        return self.add(P, P)

    def mul(self, P, n):
        if n < 0:
            return self.mul(self.neg(P), -n)
        R = None
        Q = P
        while n:
            if n & 1:
                R = self.add(R, Q)
            n >>= 1
            if n:
                Q = self.add(Q, Q)
        return R

    def points(self):
        """All affine points (brute force; tiny fields only), infinity not included."""
        F = self.F
        els = list(F.elems())
        sq = {}
        for y in els:
            sq.setdefault(F.mul(y, y), []).append(y)
        out = []
        for x in els:
            rhs = F.add(F.add(F.mul(F.mul(x, x), x), F.mul(self.a, x)), self.b)
            for y in sq.get(rhs, ()):
                out.append((x, y))
        return out

    def order_of(self, P, group_order):
        """Order of P given the group order (tiny groups: by trial of divisors)."""
        divs = [d for d in range(1, group_order + 1) if group_order % d == 0]
        for d in divs:
            if self.mul(P, d) is None:
                return d
        raise AssertionError("order does not divide group order")

    def lift_x(self, x):
        """Points with the given x (0, 1 or 2)."""
        F = self.F
        rhs = F.add(F.add(F.mul(F.mul(x, x), x), F.mul(self.a, x)), self.b)
        y = F.sqrt(rhs)
        if y is None:
            return []
        ny = F.neg(y)
        return [(x, y)] if ny == y else [(x, y), (x, ny)]


def selfcheck():
    """Exhaustive associativity / closure self-check of the model on small curves."""
    from .zp import Fp, Fpk

    for F, b in ((Fp(5), 1), (Fp(7), 3), (Fp(11), 2), (Fp(13), 5), (Fpk(5, (2, 0)), (1, 1))):
        E = Curve(F, 0, b)
        pts = [None] + E.points()
        n = len(pts)
        for P in pts:
            assert E.on_curve(P)
            assert E.mul(P, n) is None
            assert E.add(P, E.neg(P)) is None
            for Q in pts:
                S = E.add(P, Q)
                assert E.on_curve(S) and S == E.add(Q, P)
                for T in pts:
                    assert E.add(S, T) == E.add(P, E.add(Q, T))
    return True

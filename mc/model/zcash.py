"""Reference model of the ZCash BLS12-381 point serialisation (compressed form), written from
the format description: 384-bit words, three flag bits on top (c = compressed, b = infinity,
a = sign: set iff y is the lexicographically larger of {y, -y}; for Fp2 the order compares the
imaginary part (c1) first, then the real part), x below them; for G2 the first word carries
x.c1 with the flags and the second word x.c0 with no flags.  Plain ints; no py_ecc code."""
from . import params
from .zp import Fp, Fpk
from .ec import Curve

P = params.BLS_P
F1 = Fp(P)
F2 = Fpk(P, (1, 0))
E1 = Curve(F1, 0, params.BLS_B)
E2 = Curve(F2, 0, params.bls_b2())
C, B, A = 1 << 383, 1 << 382, 1 << 381
MASK = A - 1
HALF = (P - 1) // 2


def _larger1(y):
    return y > HALF


def _larger2(y):
    re, im = y
    return im > HALF if im != 0 else re > HALF


def encode_g1(Pt):
    if Pt is None:
        return C | B
    x, y = Pt
    return C | (A if _larger1(y) else 0) | x


def encode_g2(Pt):
    if Pt is None:
        return (C | B, 0)
    (x0, x1), y = Pt
    return (C | (A if _larger2(y) else 0) | x1, x0)


def decode_g1(z):
    """('ok', point-or-None) | ('reject', reason) for an integer 0 <= z < 2^384"""
    if not 0 <= z < (1 << 384):
        return ("undefined", "not a 384-bit word")
    c, b, a, x = bool(z & C), bool(z & B), bool(z & A), z & MASK
    if not c:
        return ("reject", "uncompressed form not accepted")
    if b:
        if a or x:
            return ("reject", "infinity with other bits")
        return ("ok", None)
    if x >= P:
        return ("reject", "x >= p")
    y = F1.sqrt((x * x * x + params.BLS_B) % P)
    if y is None:
        return ("reject", "no y")
    if _larger1(y) != a and y != 0:
        y = P - y
    if y == 0 and a:
        return ("reject", "sign bit on y = 0")
    return ("ok", (x, y))


def decode_g2(z1, z2):
    if not (0 <= z1 < (1 << 384) and 0 <= z2 < (1 << 384)):
        return ("undefined", "not 384-bit words")
    c, b, a, x1 = bool(z1 & C), bool(z1 & B), bool(z1 & A), z1 & MASK
    if not c:
        return ("reject", "uncompressed form not accepted")
    if z2 >> 381:
        return ("reject", "flag bits in the second word")
    if b:
        if a or x1 or z2:
            return ("reject", "infinity with other bits")
        return ("ok", None)
    if x1 >= P or z2 >= P:
        return ("reject", "coordinate >= p")
    x = (z2, x1)
    y = F2.sqrt(F2.add(F2.mul(F2.mul(x, x), x), params.bls_b2()))
    if y is None:
        return ("reject", "no y")
    if y == (0, 0):
        return ("reject", "sign bit on y = 0") if a else ("ok", (x, y))
    if _larger2(y) != a:
        y = F2.neg(y)
    return ("ok", (x, y))


# ------------------------------------------------------------------ constructions of special points
def cube_roots(F, c):
    """all cube roots of c in F (Fp or Fp2 of BLS12-381; q = 1 mod 3), possibly empty"""
    q = F.p if isinstance(F, Fp) else F.p ** F.k
    assert (q - 1) % 3 == 0
    if F.is_zero(c):
        return [F.zero]
    if F.pow(c, (q - 1) // 3) != F.one:
        return []
    s, m = 0, q - 1
    while m % 3 == 0:
        m //= 3
        s += 1
    e = pow(3, -1, m)
    r0 = F.pow(c, e)
    # generator of the 3-Sylow subgroup
    g = None
    k = 2
    while g is None:
        cand = F.el(k) if isinstance(F, Fp) else F.el((k, 1))
        if F.pow(cand, (q - 1) // 3) != F.one:
            g = F.pow(cand, m)
        k += 1
    eta = F.one
    roots = []
    for _ in range(3 ** s):
        r = F.mul(r0, eta)
        if F.mul(F.mul(r, r), r) == c:
            roots.append(r)
        eta = F.mul(eta, g)
    assert len(roots) == 3
    return roots


def g1_points_with_y(ys):
    """curve points of E1 with the given y (x = cube root of y^2 - 4), first root each"""
    out = []
    for y in ys:
        rs = cube_roots(F1, (y * y - params.BLS_B) % P)
        if rs:
            out.append((min(rs), y % P))
    return out


def g2_points_with_y(ys):
    out = []
    for y in ys:
        y = F2.el(y)
        rs = cube_roots(F2, F2.sub(F2.mul(y, y), params.bls_b2()))
        if rs:
            out.append((min(rs), y))
    return out


def selfcheck():
    import random

    g = random.Random(7)
    # published anchor: the Ethereum consensus-spec / ZCash generator encodings
    G1 = params.bls_g1()
    assert encode_g1(G1).to_bytes(48, "big").hex() == (
        "97f1d3a73197d7942695638c4fa9ac0fc3688c4f9774b905a14e3a3f171bac586c55e83ff97a1aeffb3af00adb22c6bb")
    G2 = params.bls_g2()
    z1, z2 = encode_g2(G2)
    assert (z1.to_bytes(48, "big") + z2.to_bytes(48, "big")).hex() == (
        "93e02b6052719f607dacd3a088274f65596bd0d09920b61ab5da61bbdc7f5049334cf11213945d57e5ac7d055d042b7e"
        "024aa2b2f08f0a91260805272dc51051c6e47ad4fa403b02b4510b647ae3d1770bac0326a805bbefd48056c8c121bdb8")
    for E, enc, dec, G in ((E1, encode_g1, decode_g1, G1), (E2, encode_g2, lambda w: decode_g2(*w), G2)):
        for k in (1, 2, 3, g.randrange(params.BLS_R), params.BLS_R - 1):
            Pt = E.mul(G, k)
            assert dec(enc(Pt)) == ("ok", Pt)
            assert enc(E.neg(Pt)) != enc(Pt)
        assert dec(enc(None)) == ("ok", None)
    assert decode_g1(0)[0] == "reject" and decode_g1(C | B | A)[0] == "reject" and decode_g1(C | P)[0] == "reject"
    assert decode_g2(C | B, 1)[0] == "reject" and decode_g2(encode_g2(G2)[0], encode_g2(G2)[1] | A)[0] == "reject"
    # special-point constructions
    pts = g1_points_with_y([HALF, HALF + 1, HALF - 1, HALF + 2, 1, 2, 3])
    assert pts and all(E1.on_curve(Q) for Q in pts)
    pts = g2_points_with_y([(3, 0), (5, 0), (HALF, 0), (0, 3), (0, HALF + 1), (7, 0), (0, 2)])
    assert pts and all(E2.on_curve(Q) for Q in pts)
    for Q in pts:
        assert decode_g2(*encode_g2(Q)) == ("ok", Q)
    return True

"""Reference model of finite fields.  Plain ints and tuples; no py_ecc import.

Fp(p):       GF(p), elements are ints in [0, p).
Fpk(p, mc):  GF(p)[x] / (x^k + mc[k-1] x^(k-1) + ... + mc[0]), elements are k-tuples of
             ints in [0, p) (low coefficient first), the same convention as the library's
             `modulus_coeffs` ("implied + [1]").
Both expose: zero, one, add, sub, mul, neg, inv (inv0: inv(0) = 0), div, pow, eq, elems().
"""
import itertools


class Fp:
    k = 1

    def __init__(self, p):
        self.p = p
        self.q = p
        self.zero = 0
        self.one = 1 % p

    def el(self, x):
        return x % self.p

    def add(self, a, b):
        return (a + b) % self.p

    def sub(self, a, b):
        return (a - b) % self.p

    def mul(self, a, b):
        return (a * b) % self.p

    def neg(self, a):
        return (-a) % self.p

    def smul(self, a, n):
        return (a * n) % self.p

    def inv(self, a):
        a %= self.p
        if a == 0:
            return 0
        return pow(a, self.p - 2, self.p)  # Fermat (p prime)

    def div(self, a, b):
        return (a * self.inv(b)) % self.p

    def pow(self, a, n):
        return pow(a, n, self.p)

    def is_zero(self, a):
        return a % self.p == 0

    def elems(self):
        return range(self.p)

    def coeffs(self, a):
        return (a % self.p,)

    def sqrt(self, a):
        """Some square root or None (p odd).  Brute force for tiny p, else p = 3 mod 4
        or Tonelli-Shanks."""
        p = self.p
        a %= p
        if a == 0:
            return 0
        if p == 2:
            return a
        if pow(a, (p - 1) // 2, p) != 1:
            return None
        if p % 4 == 3:
            return pow(a, (p + 1) // 4, p)
        # Tonelli-Shanks
        q, s = p - 1, 0
        while q % 2 == 0:
            q //= 2
            s += 1
        z = 2
        while pow(z, (p - 1) // 2, p) != p - 1:
            z += 1
        m, c, t, r = s, pow(z, q, p), pow(a, q, p), pow(a, (q + 1) // 2, p)
        while t != 1:
            i, t2 = 0, t
            while t2 != 1:
                t2 = t2 * t2 % p
                i += 1
            b = pow(c, 1 << (m - i - 1), p)
            m, c = i, b * b % p
            t, r = t * c % p, r * b % p
        return r


class Fpk:
    def __init__(self, p, mc):
        self.p = p
        self.mc = tuple(c % p for c in mc)
        self.k = len(self.mc)
        self.q = p ** self.k
        self.zero = (0,) * self.k
        self.one = (1 % p,) + (0,) * (self.k - 1)

    def el(self, x):
        if isinstance(x, int):
            return (x % self.p,) + (0,) * (self.k - 1)
        assert len(x) == self.k
        return tuple(c % self.p for c in x)

    def add(self, a, b):
        p = self.p
        return tuple((x + y) % p for x, y in zip(a, b))

    def sub(self, a, b):
        p = self.p
        return tuple((x - y) % p for x, y in zip(a, b))

    def neg(self, a):
        p = self.p
        return tuple((-x) % p for x in a)

    def smul(self, a, n):
        p = self.p
        return tuple((x * n) % p for x in a)

    def mul(self, a, b):
        k, p, mc = self.k, self.p, self.mc
        t = [0] * (2 * k - 1)
        for i, x in enumerate(a):
            if x:
                for j, y in enumerate(b):
                    t[i + j] += x * y
        # reduce: x^k = -sum mc[i] x^i
        for d in range(2 * k - 2, k - 1, -1):
            top = t[d] % p
            if top:
                for i in range(k):
                    if mc[i]:
                        t[d - k + i] -= top * mc[i]
            t[d] = 0
        return tuple(c % p for c in t[:k])

    def pow(self, a, n):
        assert n >= 0
        r = self.one
        b = a
        while n:
            if n & 1:
                r = self.mul(r, b)
            n >>= 1
            if n:
                b = self.mul(b, b)
        return r

    def is_zero(self, a):
        return not any(c % self.p for c in a)

    def inv(self, a):
        """inv0 by the polynomial extended Euclidean algorithm over GF(p)."""
        p, k = self.p, self.k
        a = [c % p for c in a]
        if not any(a):
            return self.zero
        # r0 = modulus, r1 = a ; s0 = 0, s1 = 1 ; invariant s_i * a = r_i (mod modulus)
        r0 = list(self.mc) + [1]
        r1 = a[:]
        s0 = [0]
        s1 = [1]

        def trim(x):
            while len(x) > 1 and x[-1] == 0:
                x.pop()
            return x

        trim(r1)
        while not (len(r1) == 1):
            # divide r0 by r1
            qv, rem = _pdivmod(r0, r1, p)
            r0, r1 = r1, trim(rem)
            s0, s1 = s1, trim(_psub(s0, _pmul(qv, s1, p), p))
            if len(r1) == 1 and r1[0] == 0:
                raise ZeroDivisionError("modulus not irreducible / element not invertible")
        c = pow(r1[0], p - 2, p)
        out = [(x * c) % p for x in s1]
        out += [0] * (k - len(out))
        assert len(out) == k
        return tuple(out)

    def div(self, a, b):
        return self.mul(a, self.inv(b))

    def elems(self):
        for t in itertools.product(range(self.p), repeat=self.k):
            yield t[::-1]  # so that the low coefficient varies fastest

    def coeffs(self, a):
        return tuple(c % self.p for c in a)

    def sqrt(self, a):
        """Some square root or None.  Brute force for tiny fields; for k == 2 with
        modulus x^2+1 (p = 3 mod 4) the complex method."""
        a = self.el(a)
        if self.is_zero(a):
            return self.zero
        if self.q <= 4096:
            for e in self.elems():
                if self.mul(e, e) == a:
                    return e
            return None
        assert self.k == 2 and self.mc == (1, 0) and self.p % 4 == 3
        p = self.p
        F = Fp(p)
        x, y = a
        if y == 0:
            s = F.sqrt(x)
            if s is not None:
                return (s, 0)
            s = F.sqrt((-x) % p)
            return (0, s)
        n = F.sqrt((x * x + y * y) % p)
        if n is None:
            return None
        for nn in (n, (-n) % p):
            t = (x + nn) * F.inv(2) % p
            s = F.sqrt(t)
            if s is not None and s != 0:
                r = (s, y * F.inv(2 * s) % p)
                if self.mul(r, r) == a:
                    return r
        return None


def _pdivmod(a, b, p):
    a = a[:]
    db = len(b) - 1
    lead_inv = pow(b[db], p - 2, p)
    qv = [0] * max(1, len(a) - db)
    for i in range(len(a) - 1 - db, -1, -1):
        c = (a[i + db] * lead_inv) % p
        qv[i] = c
        if c:
            for j in range(db + 1):
                a[i + j] = (a[i + j] - c * b[j]) % p
    rem = a[:db] if db > 0 else [0]
    if not rem:
        rem = [0]
    return qv, rem


def _pmul(a, b, p):
    out = [0] * (len(a) + len(b) - 1)
    for i, x in enumerate(a):
        if x:
            for j, y in enumerate(b):
                out[i + j] = (out[i + j] + x * y) % p
    return out


def _psub(a, b, p):
    n = max(len(a), len(b))
    a = a + [0] * (n - len(a))
    b = b + [0] * (n - len(b))
    return [(x - y) % p for x, y in zip(a, b)]


def is_prime(n):
    if n < 2:
        return False
    i = 2
    while i * i <= n:
        if n % i == 0:
            return False
        i += 1
    return True


def is_irreducible(p, mc):
    """Brute force for tiny cases: monic x^k + ... has no monic factor of degree 1..k/2."""
    k = len(mc)
    f = [c % p for c in mc] + [1]
    for d in range(1, k // 2 + 1):
        for low in itertools.product(range(p), repeat=d):
            g = list(low) + [1]
            _, rem = _pdivmod(f, g, p)
            if not any(rem):
                return False
    return True


def selfcheck():
    """Exhaustive self-check of the model on tiny fields (run at setup)."""
    for p in (2, 3, 5, 7):
        F = Fp(p)
        for a in F.elems():
            assert F.mul(a, F.inv(a)) == (1 % p if a else 0)
            r = F.sqrt(F.mul(a, a))
            assert r is not None and F.mul(r, r) == F.mul(a, a)
    for p, mc in ((2, (1, 1)), (3, (1, 0)), (5, (2, 0)), (5, (2, 1)), (7, (1, 0)), (2, (1, 1, 0)), (3, (1, 2, 0))):
        assert is_irreducible(p, mc), (p, mc)
        F = Fpk(p, mc)
        els = list(F.elems())
        assert len(set(els)) == F.q
        for a in els:
            ia = F.inv(a)
            assert F.mul(a, ia) == (F.one if any(a) else F.zero), (p, mc, a, ia)
            assert ia == (F.pow(a, F.q - 2) if F.q > 2 else a)
            for b in els:
                assert F.mul(a, b) == F.mul(b, a)
                assert F.sub(F.add(a, b), b) == a
                for c in els[:9]:
                    assert F.mul(F.mul(a, b), c) == F.mul(a, F.mul(b, c))
                    assert F.mul(a, F.add(b, c)) == F.add(F.mul(a, b), F.mul(a, c))
    assert not is_irreducible(5, (1, 0))  # x^2+1 = (x-2)(x+2) mod 5
    return True

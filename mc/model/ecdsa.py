"""Reference model for secp256k1-style curves y^2 = x^3 + a x + b over GF(p) on plain ints:
affine group law (None = identity), ECDSA sign / verify / recover algebra, and the HMAC-DRBG
nonce exactly as property C06 states it ("the RFC 6979 HMAC-SHA256 value computed from the
key and hash bytes").  Shares no code with py_ecc; HMAC is written out from RFC 2104 on
hashlib.sha256."""
import hashlib


class C:
    """curve parameters: p, a, b, n (group order), G"""

    def __init__(self, p, a, b, n, G):
        self.p, self.a, self.b, self.n, self.G = p, a, b, n, G

    # -------------------------------------------------------------- group law
    def on_curve(self, P):
        if P is None:
            return True
        x, y = P
        return (y * y - (x * x * x + self.a * x + self.b)) % self.p == 0

    def neg(self, P):
        if P is None:
            return None
        return (P[0], -P[1] % self.p)

    def add(self, P, Q):
        p = self.p
        if P is None:
            return Q
        if Q is None:
            return P
        x1, y1 = P
        x2, y2 = Q
        if x1 == x2:
            if (y1 + y2) % p == 0:
                return None
            m = (3 * x1 * x1 + self.a) * pow(2 * y1, -1, p) % p
        else:
            m = (y2 - y1) * pow(x2 - x1, -1, p) % p
        x3 = (m * m - x1 - x2) % p
        return (x3, (m * (x1 - x3) - y1) % p)

    def mul(self, P, n):
        """n-fold sum, any integer n (negative: multiples of -P)."""
        if n < 0:
            P, n = self.neg(P), -n
        R = None
        while n:
            if n & 1:
                R = self.add(R, P)
            n >>= 1
            if n:
                P = self.add(P, P)
        return R

    def lift_x(self, x, odd):
        """the curve point with x-coordinate x (0 <= x < p) and y parity `odd`, or None.
        Generic square root by exponent (p = 3 mod 4) or brute force for tiny p."""
        p = self.p
        rhs = (x * x * x + self.a * x + self.b) % p
        if p % 4 == 3:
            y = pow(rhs, (p + 1) // 4, p)
            if y * y % p != rhs:
                return None
        else:
            for y in range(p):
                if y * y % p == rhs:
                    break
            else:
                return None
        if y == 0:
            return (x, 0) if not odd else None
        if (y % 2 == 1) != bool(odd):
            y = p - y
        return (x, y)

    def points(self):
        out = []
        p = self.p
        sq = {}
        for y in range(p):
            sq.setdefault(y * y % p, []).append(y)
        for x in range(p):
            for y in sq.get((x * x * x + self.a * x + self.b) % p, ()):
                out.append((x, y))
        return out

    # -------------------------------------------------------------- ECDSA
    def verify(self, Q, z, r, s):
        """standard verification equation; Q may be None (identity) -> False"""
        n = self.n
        if not (1 <= r < n and 1 <= s < n) or Q is None:
            return False
        w = pow(s, -1, n)
        X = self.add(self.mul(self.G, z * w % n), self.mul(Q, r * w % n))
        return X is not None and X[0] % n == r

    def sign_with_k(self, d, z, k):
        """(v, r, s) low-s normalised with v in {27, 28} tracking the parity of the *used*
        nonce point; None when k, r or s is degenerate (outside the statement's domain)."""
        n = self.n
        if k % n == 0:
            return None
        R = self.mul(self.G, k)
        if R is None:
            return None
        # py_ecc (like Bitcoin/Ethereum) takes r = x without reduction mod n; the property
        # demands 1 <= r < N, which the check asserts separately
        r = R[0]
        s = pow(k % n, -1, n) * (z + r * d) % n
        odd = R[1] % 2
        if s * 2 >= n:
            s = n - s
            odd ^= 1
        return (27 + odd, r, s)

    def recover(self, v, r, s, z):
        """('raise',) or ('ok', Q) with Q the unique point satisfying (r mod n) Q = sR - zG,
        R = point with x = r and even y for 27 / odd y for 28.  r in [0, p)."""
        n = self.n
        if v not in (27, 28) or r % n == 0 or s % n == 0:
            return ("raise",)
        if not 0 <= r < self.p:
            return ("undefined",)
        R = self.lift_x(r, v == 28)
        if R is None:
            return ("raise",)
        T = self.add(self.mul(R, s), self.neg(self.mul(self.G, z)))
        return ("ok", self.mul(T, pow(r % n, -1, n)))


# ------------------------------------------------------------------ HMAC / nonce
def _hmac_sha256(key, msg):
    if len(key) > 64:
        key = hashlib.sha256(key).digest()
    key = key + b"\x00" * (64 - len(key))
    ipad = bytes(b ^ 0x36 for b in key)
    opad = bytes(b ^ 0x5C for b in key)
    return hashlib.sha256(opad + hashlib.sha256(ipad + msg).digest()).digest()


def nonce(msghash, priv):
    """HMAC-DRBG of RFC 6979 3.2 steps b-h with the key and hash bytes as given (no
    bits2octets reduction, no retry loop: see DESIGN 7 #5)."""
    V = b"\x01" * 32
    K = b"\x00" * 32
    K = _hmac_sha256(K, V + b"\x00" + priv + msghash)
    V = _hmac_sha256(K, V)
    K = _hmac_sha256(K, V + b"\x01" + priv + msghash)
    V = _hmac_sha256(K, V)
    V = _hmac_sha256(K, V)
    return int.from_bytes(V, "big")


def secp256k1():
    from . import params as q

    return C(q.SECP_P, q.SECP_A, q.SECP_B, q.SECP_N, (q.SECP_GX, q.SECP_GY))


def tiny(P, B, N):
    """tiny prime-order curve y^2 = x^3 + B over GF(P); generator = first point in (x, y)
    order (every non-identity point generates: N is prime)."""
    c = C(P, 0, B, N, None)
    pts = c.points()
    assert len(pts) + 1 == N, (P, B, N, len(pts))
    c.G = pts[0]
    assert c.mul(c.G, N) is None
    return c


TINY = [(7, 3, 13), (19, 2, 13), (31, 3, 43), (43, 7, 31), (67, 2, 73), (79, 3, 97),
        (103, 5, 97), (127, 3, 127), (139, 2, 163), (163, 2, 139), (199, 3, 211)]
# larger ones for the thorough tiers (same search: P = 3 mod 4, prime order N != P)
TINY_MORE = [(211, 2, 199), (223, 5, 229), (283, 3, 277), (379, 2, 409), (463, 3, 487),
             (499, 11, 457)]


def selfcheck():
    import hmac as _h

    for k, m in ((b"", b""), (b"k" * 64, b"m"), (b"k" * 65, b"abc" * 50), (b"\x0b" * 20, b"Hi There")):
        assert _hmac_sha256(k, m) == _h.new(k, m, hashlib.sha256).digest()
    assert _hmac_sha256(b"\x0b" * 20, b"Hi There").hex() == (
        "b0344c61d8db38535ca8afceaf0bf12b881dc200c9833da726e9376c2e32cff7")  # RFC 4231 case 1
    c = secp256k1()
    # RFC 6979-style published vector: key 1, sha256("Satoshi Nakamoto")
    d = 1
    h = hashlib.sha256(b"Satoshi Nakamoto").digest()
    k = nonce(h, d.to_bytes(32, "big"))
    assert k == 0x8F8A276C19F4149656B280621E358CCE24F5F52542772691EE69063B74F15D15
    v, r, s = c.sign_with_k(d, int.from_bytes(h, "big"), k)
    assert r == 0x934B1EA10A4B3C1757E2B0C017D0B6143CE3C9A7E6A4A49860D7A6AB210EE3D8
    assert s == 0x2442CE9D2B916064108014783E923EC36B49743E2FFA1C4496F01A512AAFD9E5
    assert c.verify(c.G, int.from_bytes(h, "big"), r, s)
    assert c.recover(v, r, s, int.from_bytes(h, "big")) == ("ok", c.G)
    for t in TINY:
        e = tiny(*t)
        pts = [None] + e.points()
        if t[0] <= 31:
            for P in pts:
                for Q in pts:
                    S = e.add(P, Q)
                    assert e.on_curve(S) and S == e.add(Q, P)
                    for T in pts:
                        assert e.add(S, T) == e.add(P, e.add(Q, T))
    return True

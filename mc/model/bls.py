"""Independent model of the IETF BLS signature draft v4 ciphersuites
BLS_SIG_BLS12381G2_XMD:SHA-256_SSWU_RO_{NUL,AUG,POP}_ (minimal-pubkey-size: keys in G1,
signatures in G2), by composition of the other models (h2c, zcash, ec, params).  No py_ecc code."""
import functools

from . import params, h2c, zcash
from .zcash import E1, E2

R = params.BLS_R
DST = {
    "basic": b"BLS_SIG_BLS12381G2_XMD:SHA-256_SSWU_RO_NUL_",
    "aug": b"BLS_SIG_BLS12381G2_XMD:SHA-256_SSWU_RO_AUG_",
    "pop": b"BLS_SIG_BLS12381G2_XMD:SHA-256_SSWU_RO_POP_",
}
POP_TAG = b"BLS_POP_BLS12381G2_XMD:SHA-256_SSWU_RO_POP_"
CLASS = {"basic": "G2Basic", "aug": "G2MessageAugmentation", "pop": "G2ProofOfPossession"}


def g1_bytes(Pt):
    return zcash.encode_g1(Pt).to_bytes(48, "big")


def g2_bytes(Pt):
    z1, z2 = zcash.encode_g2(Pt)
    return z1.to_bytes(48, "big") + z2.to_bytes(48, "big")


@functools.lru_cache(4096)
def pk_point(sk):
    return E1.mul(params.bls_g1(), sk)


def sk_to_pk(sk):
    return g1_bytes(pk_point(sk))


@functools.lru_cache(4096)
def hash_point(msg, dst):
    return h2c.hash_to_G2(msg, dst)


@functools.lru_cache(8192)
def core_sign_point(sk, msg, dst):
    return E2.mul(hash_point(msg, dst), sk)


def hashed_message(suite, sk_or_pk, msg):
    """the string that is hashed to the curve: pk || msg in the augmentation suite"""
    if suite == "aug":
        pk = sk_or_pk if isinstance(sk_or_pk, bytes) else sk_to_pk(sk_or_pk)
        return pk + msg
    return msg


def sign_point(suite, sk, msg):
    return core_sign_point(sk, hashed_message(suite, sk, msg), DST[suite])


def sign(suite, sk, msg):
    return g2_bytes(sign_point(suite, sk, msg))


def pop_prove_point(sk):
    return core_sign_point(sk, sk_to_pk(sk), POP_TAG)


def pop_prove(sk):
    return g2_bytes(pop_prove_point(sk))


def decode_sig(sig):
    """96 bytes -> ('ok', point) | ('reject', why)"""
    if len(sig) != 96:
        return ("reject", "length")
    return zcash.decode_g2(int.from_bytes(sig[:48], "big"), int.from_bytes(sig[48:], "big"))


def decode_pk(pk):
    if len(pk) != 48:
        return ("reject", "length")
    return zcash.decode_g1(int.from_bytes(pk, "big"))


def key_validate(pk):
    """draft v4 2.5: valid encoding, not the identity, in the subgroup"""
    d = decode_pk(pk)
    if d[0] != "ok" or d[1] is None:
        return False
    return E1.mul(d[1], R) is None


def sig_in_subgroup(sig):
    d = decode_sig(sig)
    return d[0] == "ok" and E2.mul(d[1], R) is None


def aggregate(sigs):
    acc = None
    for s in sigs:
        d = decode_sig(s)
        assert d[0] == "ok"
        acc = E2.add(acc, d[1])
    return g2_bytes(acc)


def selfcheck():
    # Ethereum consensus-spec BLS vector (proof-of-possession suite, message = 32 zero bytes)
    sk = 0x263DBD792F5B1BE47ED85F8938C0F29586AF0D3AC7B977F21C278FE1462040E3
    assert sk_to_pk(sk).hex() == (
        "a491d1b0ecd9bb917989f0e74f0dea0422eac4a873e5e2644f368dffb9a6e20fd6e10c1b77654d067c0618f6e5a7f79a")
    assert sign("pop", sk, b"\x00" * 32).hex() == (
        "b6ed936746e01f8ecf281f020953fbf1f01debd5657c4a383940b020b26507f6076334f91e2366c96e9ab279fb5158090352ea"
        "1c5b0c9274504f4f0e7053af24802e51e4568d164fe986834f41e55c8e850ce1f98458c0cfc9ab380b55285a55")
    assert key_validate(sk_to_pk(sk)) and not key_validate(g1_bytes(None))
    assert sig_in_subgroup(sign("basic", 5, b"x"))
    assert aggregate([sign("basic", 5, b"x"), sign("basic", 6, b"x")]) == sign("basic", 11, b"x")
    return True

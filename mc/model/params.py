"""Curve parameters derived from first principles (family polynomials, SEC 2, the ZCash
generator rule).  Nothing here is copied from py_ecc; C07/C17 compare py_ecc with these."""
import functools

from .zp import Fp, Fpk
from .ec import Curve

# ------------------------------------------------------------------ BN254 (alt_bn128)
BN_U = 4965661367192848881
BN_P = 36 * BN_U**4 + 36 * BN_U**3 + 24 * BN_U**2 + 6 * BN_U + 1
BN_R = 36 * BN_U**4 + 36 * BN_U**3 + 18 * BN_U**2 + 6 * BN_U + 1
BN_ATE = 6 * BN_U + 2
BN_B = 3
BN_G1 = (1, 2)
BN_FQ2_MC = (1, 0)  # i^2 + 1
BN_FQ12_MC = (82, 0, 0, 0, 0, 0, -18, 0, 0, 0, 0, 0)  # w^12 - 18 w^6 + 82  (w^6 = 9 + i)
# G2 of EIP-197 / alt_bn128 (cannot be derived; validated algebraically in selfcheck()):
BN_G2 = (
    (10857046999023057135944570762232829481370756359578518086990519993285655852781,
     11559732032986387107991004021392285783925812861821192530917403151452391805634),
    (8495653923123431417604973247489272438418190587263600148770280649306958101930,
     4082367875863433681332203403145435568316851327593401208105741076214120093531),
)

# ------------------------------------------------------------------ BLS12-381
BLS_X = -0xD201000000010000
BLS_R = BLS_X**4 - BLS_X**2 + 1
BLS_P = (BLS_X - 1) ** 2 * BLS_R // 3 + BLS_X
BLS_H1 = (BLS_X - 1) ** 2 // 3
BLS_H2 = (BLS_X**8 - 4 * BLS_X**7 + 5 * BLS_X**6 - 4 * BLS_X**4 + 6 * BLS_X**3
          - 4 * BLS_X**2 - 4 * BLS_X + 13) // 9
BLS_HEFF_G1 = 1 - BLS_X  # RFC 9380 8.8.1
BLS_HEFF_G2 = BLS_H2 * (3 * BLS_X**2 - 3)  # RFC 9380 8.8.2
BLS_ATE = -BLS_X
BLS_B = 4
BLS_FQ2_MC = (1, 0)
BLS_FQ12_MC = (2, 0, 0, 0, 0, 0, -2, 0, 0, 0, 0, 0)  # w^12 - 2 w^6 + 2  (w^6 = 1 + i)

# ------------------------------------------------------------------ secp256k1 (SEC 2, 2.4.1)
SECP_P = 2**256 - 2**32 - 977
SECP_N = 0xFFFFFFFFFFFFFFFFFFFFFFFFFFFFFFFEBAAEDCE6AF48A03BBFD25E8CD0364141
SECP_A = 0
SECP_B = 7
SECP_GX = 0x79BE667EF9DCBBAC55A06295CE870B07029BFCDB2DCE28D959F2815B16F81798
SECP_GY = 0x483ADA7726A3C4655DA4FBFC0E1108A8FD17B448A68554199C47D08FFB10D4B8


def bn_fields():
    return Fp(BN_P), Fpk(BN_P, BN_FQ2_MC), Fpk(BN_P, BN_FQ12_MC)


def bls_fields():
    return Fp(BLS_P), Fpk(BLS_P, BLS_FQ2_MC), Fpk(BLS_P, BLS_FQ12_MC)


@functools.lru_cache(None)
def bn_b2():
    F2 = Fpk(BN_P, BN_FQ2_MC)
    return F2.div((3, 0), (9, 1))  # D-type twist: b / xi, xi = 9 + i


def bls_b2():
    return (4, 4)  # M-type twist: b * xi, xi = 1 + i


@functools.lru_cache(None)
def bls_g1():
    """ZCash rule: smallest x with a curve point, the smaller y, times the cofactor,
    skipping candidates that the cofactor kills."""
    F = Fp(BLS_P)
    E = Curve(F, 0, BLS_B)
    x = 0
    while True:
        pts = E.lift_x(x)
        if pts:
            y = min(P[1] for P in pts)
            G = E.mul((x, y), BLS_H1)
            if G is not None:
                return G
        x += 1


def _fq2_lex_key(y):
    return (y[1], y[0])  # ZCash ordering on Fp2: c1 first, then c0


@functools.lru_cache(None)
def bls_g2():
    F2 = Fpk(BLS_P, BLS_FQ2_MC)
    E = Curve(F2, 0, bls_b2())
    c0 = 0
    while True:
        x = (c0, 0)
        pts = E.lift_x(x)
        if pts:
            y = min((P[1] for P in pts), key=_fq2_lex_key)
            G = E.mul((x, y), BLS_H2)
            if G is not None:
                return G
        c0 += 1


def curves():
    """name -> dict of model curves and parameters for the two pairing curves."""
    out = {}
    F1, F2, F12 = bn_fields()
    out["bn128"] = {
        "p": BN_P, "r": BN_R, "F": (F1, F2, F12),
        "E1": Curve(F1, 0, BN_B), "E2": Curve(F2, 0, bn_b2()), "E12": Curve(F12, 0, F12.el(BN_B)),
        "G1": BN_G1, "G2": BN_G2, "mc2": BN_FQ2_MC, "mc12": BN_FQ12_MC,
    }
    F1, F2, F12 = bls_fields()
    out["bls12_381"] = {
        "p": BLS_P, "r": BLS_R, "F": (F1, F2, F12),
        "E1": Curve(F1, 0, BLS_B), "E2": Curve(F2, 0, bls_b2()), "E12": Curve(F12, 0, F12.el(BLS_B)),
        "G1": bls_g1(), "G2": bls_g2(), "mc2": BLS_FQ2_MC, "mc12": BLS_FQ12_MC,
    }
    return out


def selfcheck():
    """Algebraic validation of everything typed in above."""
    from .zp import is_prime  # noqa: F401  (tiny only)

    def prp(n):
        return all(pow(a, n - 1, n) == 1 for a in (2, 3, 5, 7, 11, 13))

    assert prp(BN_P) and prp(BN_R) and prp(BLS_P) and prp(BLS_R) and prp(SECP_P) and prp(SECP_N)
    assert BN_P.bit_length() == 254 and BLS_P.bit_length() == 381 and BLS_R.bit_length() == 255
    assert (BN_P**12 - 1) % BN_R == 0 and (BLS_P**12 - 1) % BLS_R == 0
    # group orders: #E(Fp) = p + 1 - t
    assert BN_P + 1 - (6 * BN_U**2 + 1) == BN_R
    assert BLS_H1 * BLS_R == BLS_P + 1 - (BLS_X + 1)
    c = curves()
    for name, d in c.items():
        E1, E2 = d["E1"], d["E2"]
        assert E1.on_curve(d["G1"]) and E2.on_curve(d["G2"]), name
        assert E1.mul(d["G1"], d["r"]) is None and E2.mul(d["G2"], d["r"]) is None, name
    # secp256k1
    E = Curve(Fp(SECP_P), SECP_A, SECP_B)
    assert E.on_curve((SECP_GX, SECP_GY)) and E.mul((SECP_GX, SECP_GY), SECP_N) is None
    assert BLS_HEFF_G1 == 0xD201000000010001
    return True

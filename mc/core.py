"""Runner core: worker pool, result merging, evidence, known findings, replay artefacts."""
import hashlib
import importlib
import json
import multiprocessing
import os
import random
import signal
import subprocess
import sys
import time
import traceback

ROOT = os.path.dirname(os.path.dirname(os.path.abspath(__file__)))
REPO = os.environ.get("VERIF_REPO", "/repo")
EVIDENCE_DIR = os.path.join(ROOT, "evidence")
REPLAY_DIR = os.path.join(ROOT, "replays")
FINDINGS_FILE = os.path.join(ROOT, "known_findings.json")

MAX_VIOL_PER_TASK = 40
MAX_SAMPLES = 4


def rng(env, stream):
    """Deterministic random source: only used to *instantiate* alphabet members."""
    return random.Random("%s:%s:%s" % (env["seed"], env["pid"], stream))


_WD = {"n": 0, "r": None, "task": None}


class R:
    """Result of one worker task (also used as accumulator per sub-check)."""

    def __init__(self, sub):
        self.sub = sub
        self.ev = 0  # evaluations (implementation executions compared with the oracle)
        self.dk = set()  # distinct non-trivial case keys (small hashables)
        self.dn = 0  # distinct non-trivial cases counted in bulk (task-local, disjoint)
        self.states = 0
        self.transitions = 0
        self.traces = 0
        self.samples = []
        self.viols = []
        self.skipped = []
        self.caps = []
        self.notes = {}
        self.exhaustive = True
        self.err = None
        _WD["r"] = self  # the watchdog returns the task's (first) result object on abort

    def sample(self, s):
        if len(self.samples) < MAX_SAMPLES:
            self.samples.append(s)

    def viol(self, key, fn, args, expected=None, observed=None, note=None):
        """Record a violation.  key: stable identifier of the failing input class /
        call site (matched against known_findings.json); fn: 'module:function' of a
        replay function; args: JSON-able arguments that reproduce it."""
        if len(self.viols) < MAX_VIOL_PER_TASK:
            self.viols.append(
                {
                    "key": key,
                    "sub": self.sub,
                    "fn": fn,
                    "args": args,
                    "expected": _js(expected),
                    "observed": _js(observed),
                    "note": note,
                    "task": _WD.get("task"),
                }
            )
        else:
            self.notes["violations_truncated"] = True

    def full(self):
        """True once the task holds as many violations as it may record: explorers stop
        early then (the verdict is already decided; the run is marked non-exhaustive)."""
        if len(self.viols) >= MAX_VIOL_PER_TASK:
            if self.exhaustive:
                self.exhaustive = False
                self.caps.append("task stopped after %d recorded violations" % MAX_VIOL_PER_TASK)
            return True
        return False

    def merge(self, o):
        self.ev += o.ev
        self.dk |= o.dk
        self.dn += o.dn
        self.states += o.states
        self.transitions += o.transitions
        self.traces += o.traces
        for s in o.samples:
            self.sample(s)
        self.viols.extend(o.viols)
        for s in o.skipped:
            if s not in self.skipped:
                self.skipped.append(s)
        for c in o.caps:
            if c not in self.caps:
                self.caps.append(c)
        for k, v in o.notes.items():
            if isinstance(v, (int, float)) and not isinstance(v, bool) and isinstance(
                self.notes.get(k, 0), (int, float)
            ):
                self.notes[k] = self.notes.get(k, 0) + v
            elif isinstance(v, dict) and isinstance(self.notes.get(k, {}), dict):
                d = self.notes.setdefault(k, {})
                for kk, vv in v.items():
                    if isinstance(vv, (int, float)) and not isinstance(vv, bool):
                        d[kk] = d.get(kk, 0) + vv
                    else:
                        d[kk] = vv
            else:
                self.notes[k] = v
        self.exhaustive = self.exhaustive and o.exhaustive

    @property
    def distinct(self):
        return len(self.dk) + self.dn


def _js(x):
    """Make a value JSON-able for reports (not for replay args, which must already be)."""
    if x is None or isinstance(x, (bool, int, float, str)):
        return x
    if isinstance(x, (bytes, bytearray)):
        return "0x" + bytes(x).hex()
    if isinstance(x, (list, tuple)):
        return [_js(i) for i in x]
    if isinstance(x, dict):
        return {str(k): _js(v) for k, v in x.items()}
    return repr(x)


class CaseTimeout(Exception):
    """Raised *inside the code under test* by the watchdog when a task overruns: the
    implementation did not terminate.  It is an Exception on purpose: the explorers treat
    every exception of an implementation call as that call's outcome, so the hanging case is
    recorded as a violation ('raise CaseTimeout') with its replay arguments."""


class TaskAbort(BaseException):
    pass


# generous on purpose (the watchdog is for code that does not terminate, not for slow machines):
# the slowest legitimate quick task takes ~60 s on an idle core, thorough tasks < 20 min
TASK_TIMEOUT = {"quick": 300.0, "thorough": 3600.0}
REARM = 6.0
MAX_TIMEOUTS = 5


def _in_impl(frame):
    """True when the interrupted call stack is inside the code under test (a frame whose
    source file is under /repo): only then can CaseTimeout be attributed to an
    implementation call and be caught by the explorer as that call's outcome."""
    src = os.path.join(os.path.realpath(REPO), "py_ecc") + os.sep
    f = frame
    while f is not None:
        fn = f.f_code.co_filename
        if fn.startswith(src) or os.path.realpath(fn).startswith(src):
            return True
        f = f.f_back
    return False


def _on_alarm(signum, frame):
    if not _in_impl(frame):
        # interrupted harness / model code: try again shortly (bounded), never raise here
        _WD["miss"] = _WD.get("miss", 0) + 1
        if _WD["miss"] > 20000:
            raise TaskAbort()
        signal.setitimer(signal.ITIMER_REAL, 0.01)
        return
    _WD["n"] += 1
    if _WD["n"] > MAX_TIMEOUTS:
        raise TaskAbort()
    signal.setitimer(signal.ITIMER_REAL, REARM)
    raise CaseTimeout()


def _worker(job):
    modname, fname, args, env = job
    _WD["n"] = 0
    _WD["miss"] = 0
    _WD["r"] = None
    _WD["task"] = {"mod": modname, "task": fname, "args": args, "env": env}
    prev = list(_WD.setdefault("hist", []))
    _WD["hist"].append(_WD["task"])
    try:
        mod = importlib.import_module(modname)
        f = getattr(mod, "task_" + fname)
        t0 = time.time()
        signal.signal(signal.SIGALRM, _on_alarm)
        # scaled by the machine's load: the watchdog is for code that does not terminate, a busy
        # machine must not look like that
        try:
            scale = max(1.0, 2.0 * os.getloadavg()[0] / (os.cpu_count() or 1))
        except OSError:
            scale = 1.0
        signal.setitimer(signal.ITIMER_REAL, float(os.environ.get("VERIF_TASK_TIMEOUT", 0))
                         or TASK_TIMEOUT.get(env.get("tier"), 300.0) * scale)
        try:
            r = f(args, env)
        finally:
            signal.setitimer(signal.ITIMER_REAL, 0)
        r.notes["task_s"] = round(time.time() - t0, 3)
        if not isinstance(r, R):
            raise TypeError("task %s returned %r" % (fname, type(r)))
        if _WD["n"]:
            r.notes["watchdog_timeouts"] = _WD["n"]
        # the tasks this worker process ran before this one: a violation that needs hidden library
        # state built up by them is replayed with that history
        seen = set()
        for v in r.viols:
            if v["key"] not in seen and prev:
                seen.add(v["key"])
                v["prev_tasks"] = prev
        return r
    except TaskAbort:
        signal.setitimer(signal.ITIMER_REAL, 0)
        r = _WD["r"]
        if r is None or not r.viols:
            r = R(fname)
            r.err = "task %s(%s) aborted by the watchdog without a recorded case" % (
                fname, json.dumps(_js(args))[:300])
            return r
        r.exhaustive = False
        r.caps.append("task %s aborted after %d watchdog timeouts (non-terminating code under test)"
                      % (fname, MAX_TIMEOUTS))
        return r
    except BaseException:  # harness error, never a verdict
        signal.setitimer(signal.ITIMER_REAL, 0)
        r = R(fname)
        r.err = "task %s(%s)\n%s" % (fname, json.dumps(_js(args))[:300], traceback.format_exc())
        return r


class HarnessError(Exception):
    pass


class Ctx:
    def __init__(self, pid, tier, seed, jobs):
        self.pid = pid
        self.tier = tier
        self.seed = seed
        self.jobs = jobs
        self.env = {"pid": pid, "tier": tier, "seed": seed}
        self.subs = {}
        self.order = []
        self.assumptions = []
        self.rule = ""
        self.bounds = {}
        self.t0 = time.time()
        self._pool = None

    @property
    def quick(self):
        return self.tier == "quick"

    def rng(self, stream):
        return rng(self.env, stream)

    def acc(self, r):
        if r.err:
            raise HarnessError(r.err)
        if r.sub not in self.subs:
            self.subs[r.sub] = R(r.sub)
            self.order.append(r.sub)
        self.subs[r.sub].merge(r)

    def pmap(self, modname, tasks, serial=False):
        """tasks: list of (task_name, args).  Runs task_<name>(args, env) in the worker
        pool (fork), merges the results.  Deterministic: results are merged in task order."""
        jobs = [(modname, n, a, self.env) for (n, a) in tasks]
        if serial or self.jobs <= 1 or len(jobs) <= 1:
            res = [_worker(j) for j in jobs]
        else:
            if self._pool is None:
                ctx = multiprocessing.get_context("fork")
                self._pool = ctx.Pool(self.jobs)
            res = []
            for r in self._pool.imap(_worker, jobs, chunksize=1):
                res.append(r)
                if any("aborted after" in c for c in r.caps):
                    # non-terminating code under test: one task's worth of evidence is
                    # enough for the verdict; do not wait for every other task to hang too
                    self._pool.terminate()
                    self._pool.join()
                    self._pool = None
                    r.caps.append("exploration stopped early: remaining tasks not run")
                    break
        for r in res:
            self.acc(r)
        return res

    def close(self):
        if self._pool is not None:
            self._pool.terminate()
            self._pool.join()
            self._pool = None


def load_findings():
    if not os.path.exists(FINDINGS_FILE):
        return {"findings": [], "fixed": []}
    with open(FINDINGS_FILE) as f:
        return json.load(f)


def match_finding(findings, pid, key):
    for f in findings.get("findings", []):
        if f.get("property") == pid and f.get("key") == key:
            return f
    return None


def write_replay(pid, v):
    d = os.path.join(REPLAY_DIR, pid)
    os.makedirs(d, exist_ok=True)
    body = {"property": pid, "key": v["key"], "sub": v["sub"], "fn": v["fn"], "args": v["args"],
            "expected": v["expected"], "observed": v["observed"], "note": v.get("note")}
    blob = json.dumps(body, sort_keys=True, indent=1)
    sha = hashlib.sha256(blob.encode()).hexdigest()[:12]
    path = os.path.join(d, sha + ".json")
    with open(path, "w") as f:
        f.write(blob + "\n")
    with open(os.path.join(d, "test_%s.py" % sha), "w") as f:
        f.write(
            "# Replays one recorded violation of %s without the explorer.\n"
            "# run: cd /verif && PYTHONPATH=/verif /venv/bin/python -m pytest -q %s\n"
            "import importlib, json, os\n\n\n"
            "def test_replay_%s():\n"
            "    case = json.load(open(os.path.join(os.path.dirname(__file__), %r)))\n"
            "    mod, fn = case['fn'].split(':')\n"
            "    outcome = getattr(importlib.import_module(mod), fn)(case['args'])\n"
            "    assert outcome is None, outcome\n"
            % (pid, "replays/%s/test_%s.py" % (pid, sha), sha, sha + ".json")
        )
    return path


def replay_task(a):
    """Re-run one whole explorer task (deterministic in its arguments) and report the recorded
    violation key if it occurs again: the replay of a violation that needs the task's own call
    history (earlier calls in the same process) to manifest."""
    mod = importlib.import_module(a["mod"])
    r = getattr(mod, "task_" + a["task"])(a["args"], a["env"])
    for v in r.viols:
        if v["key"] == a["key"]:
            return {"key": v["key"], "expected": v["expected"], "observed": v["observed"], "note": v.get("note"),
                    "history": "manifests only after the earlier calls of this task (history-dependent)"}
    return None


def replay_tasks(a):
    """Re-run a sequence of explorer tasks (the ones one worker process ran, in order) and report the
    recorded violation key if the last one shows it again."""
    r = None
    for t in a["tasks"]:
        mod = importlib.import_module(t["mod"])
        r = getattr(mod, "task_" + t["task"])(t["args"], t["env"])
    for v in (r.viols if r is not None else []):
        if v["key"] == a["key"]:
            return {"key": v["key"], "expected": v["expected"], "observed": v["observed"], "note": v.get("note"),
                    "history": "manifests only after the earlier tasks of the same worker process (history-dependent)"}
    return None


def run_replay_fn(fn, args):
    mod, name = fn.split(":")
    f = getattr(importlib.import_module(mod), name)
    return f(args)


def replay_file(path):
    """Re-run one recorded case without the explorer.  exit 1 + OBSERVED line if it still
    violates, exit 0 if it passes."""
    with open(path) as f:
        case = json.load(f)

    def on_alarm(signum, frame):
        signal.setitimer(signal.ITIMER_REAL, REARM)
        raise CaseTimeout()

    signal.signal(signal.SIGALRM, on_alarm)
    default_to = 3600 if case.get("fn") in ("mc.core:replay_task", "mc.core:replay_tasks") else 300
    signal.setitimer(signal.ITIMER_REAL, float(os.environ.get("VERIF_REPLAY_TIMEOUT", default_to)))
    try:
        out = run_replay_fn(case["fn"], case["args"])
    finally:
        signal.setitimer(signal.ITIMER_REAL, 0)
    if out is None:
        print("REPLAY-PASS property=%s key=%s" % (case["property"], case["key"]))
        return 0
    print("OBSERVED " + json.dumps(_js(out), sort_keys=True))
    print("VIOLATION property=%s replay=%s" % (case["property"], path))
    return 1


def confirm_in_fresh_process(pid, path):
    """Deterministic-replay guard: the recorded case must fail identically in two fresh
    interpreters before it is reported."""
    outs = []
    for hs in ("0", "1"):
        env = dict(os.environ)
        env["PYTHONHASHSEED"] = hs
        env["PYTHONPATH"] = ROOT + (":" + env["PYTHONPATH"] if env.get("PYTHONPATH") else "")
        p = subprocess.run(
            [sys.executable, "-m", "mc.run", pid, "--replay", path],
            cwd=ROOT, env=env, capture_output=True, text=True, timeout=3600,
        )
        obs = [l for l in p.stdout.splitlines() if l.startswith("OBSERVED ")]
        outs.append((p.returncode, obs[:1], p.stderr[-2000:]))
    return outs


def write_evidence(ctx, level, nviol, known, extra=None):
    os.makedirs(EVIDENCE_DIR, exist_ok=True)
    tot = R("total")
    subs = {}
    for name in ctx.order:
        s = ctx.subs[name]
        tot.merge(s)
        d = {"evaluations": s.ev, "distinct_nontrivial": s.distinct, "exhaustive": s.exhaustive}
        if s.states:
            d["states"] = s.states
        if s.transitions:
            d["transitions"] = s.transitions
        if s.traces:
            d["traces_validated_against_impl"] = s.traces
        if s.skipped:
            d["skipped_internal"] = s.skipped
        if s.caps:
            d["caps"] = s.caps
        if s.notes:
            d["notes"] = _js(s.notes)
        subs[name] = d
    samples = []
    for name in ctx.order:
        for smp in ctx.subs[name].samples[:2]:
            samples.append({"sub": name, "case": _js(smp)})
    samples = samples[:40] or [{"sub": "none", "case": "no case was executed"}]
    cov = {
        "evaluations": tot.ev,
        # keys are only unique within a sub-check: the total is the sum of the sub-check counts
        "distinct_nontrivial": sum(ctx.subs[n].distinct for n in ctx.order),
        "rule": ctx.rule,
        "samples": samples,
        "exhaustive": bool(tot.exhaustive and not tot.caps),
        "bounds": _js(ctx.bounds),
        "subchecks": subs,
    }
    if level == "model_checking":
        cov["states"] = tot.states
        cov["transitions"] = tot.transitions
        cov["traces_validated_against_impl"] = tot.traces
    if tot.skipped:
        cov["skipped_internal"] = tot.skipped
    if tot.caps:
        cov["caps"] = tot.caps
    if known:
        cov["known_findings_observed"] = known
    if extra:
        cov.update(extra)
    ev = {
        "property_id": ctx.pid,
        "tier": ctx.tier,
        "seed": ctx.seed,
        "level": level,
        "coverage": cov,
        "assumptions": ctx.assumptions,
        "wall_s": round(time.time() - ctx.t0, 3),
        "violations": nviol,
    }
    path = os.path.join(EVIDENCE_DIR, ctx.pid + ".json")
    tmp = path + ".tmp"
    with open(tmp, "w") as f:
        json.dump(ev, f, indent=1, sort_keys=False)
        f.write("\n")
    os.replace(tmp, path)
    return ev

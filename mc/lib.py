"""Glue between the library under test and the reference models: instantiate the library's
field classes on arbitrary (small) configurations *by subclassing* (the documented way the
shipped families are made), convert values both ways, capture outcomes."""
import importlib

from .model import zp

_cls_cache = {}


def fields_mod(family):
    if family == "ref":
        return importlib.import_module("py_ecc.fields.field_elements")
    return importlib.import_module("py_ecc.fields.optimized_field_elements")


def fq_class(family, p):
    k = ("FQ", family, p)
    if k not in _cls_cache:
        m = fields_mod(family)
        _cls_cache[k] = type("V_%s_FQ_%d" % (family, p), (m.FQ,), {"field_modulus": p})
    return _cls_cache[k]


def fq2_class(family, p, mc):
    mc = tuple(mc)
    k = ("FQ2", family, p, mc)
    if k not in _cls_cache:
        m = fields_mod(family)
        _cls_cache[k] = type(
            "V_%s_FQ2_%d" % (family, p), (m.FQ2,), {"field_modulus": p, "FQ2_MODULUS_COEFFS": mc}
        )
    return _cls_cache[k]


def fq12_class(family, p, mc):
    mc = tuple(mc)
    k = ("FQ12", family, p, mc)
    if k not in _cls_cache:
        m = fields_mod(family)
        _cls_cache[k] = type(
            "V_%s_FQ12_%d" % (family, p), (m.FQ12,), {"field_modulus": p, "FQ12_MODULUS_COEFFS": mc}
        )
    return _cls_cache[k]


def fq_class_like(cls, family, p):
    """the prime-field class of the same family / modulus as the extension class `cls`: the
    shipped one when `cls` is a shipped class, else an ad-hoc subclass"""
    import py_ecc.fields as PF

    for name in ("bn128", "bls12_381"):
        pre = ("optimized_" if family == "opt" else "") + name + "_"
        for kind in ("FQ2", "FQ12", "FQP"):
            if getattr(PF, pre + kind, None) is cls:
                return getattr(PF, pre + "FQ")
    return fq_class(family, p)


class Cfg:
    """One field configuration: library class + model field + converters."""

    def __init__(self, family, p, mc=None, cls=None):
        self.family = family
        self.p = p
        self.mc = tuple(mc) if mc is not None else None
        if mc is None:
            self.cls = cls or fq_class(family, p)
            self.F = zp.Fp(p)
        else:
            if cls is None:
                if len(mc) == 2:
                    cls = fq2_class(family, p, mc)
                elif len(mc) == 12:
                    cls = fq12_class(family, p, mc)
                else:
                    raise ValueError("only degree 2 and 12 are instantiable")
            self.cls = cls
            self.F = zp.Fpk(p, mc)

    def lib(self, v):
        """model value -> library element"""
        if self.mc is None:
            return self.cls(v)
        return self.cls(list(v))

    def lib_fq(self, v):
        """model value -> library element whose coefficients are same-family FQ *objects* instead
        of ints (a constructor form the classes accept and keep); for prime fields == lib()"""
        if self.mc is None:
            return self.cls(v)
        FQc = fq_class_like(self.cls, self.family, self.p)
        return self.cls([FQc(c) for c in v])

    def mod(self, x):
        """library element -> model value (reduced).  Raises if x is of the wrong shape."""
        return to_model(x, self.p, self.mc)

    def name(self):
        return "%s:GF(%d%s)" % (self.family, self.p, "" if self.mc is None else "^%d|%s" % (len(self.mc), list(self.mc)))


def to_model(x, p, mc=None):
    if mc is None:
        n = x.n
        if not isinstance(n, int):
            raise TypeError("FQ.n is %r" % type(n))
        return n % p
    cs = x.coeffs
    if len(cs) != len(mc):
        raise ValueError("wrong number of coefficients: %d" % len(cs))
    return tuple(int(c) % p for c in cs)


def raw_coeffs(x):
    """The stored representation, unreduced (for canonical-form checks)."""
    if hasattr(x, "coeffs"):
        return tuple(int(c) for c in x.coeffs)
    return (x.n,)


def is_reduced(x, p):
    return all(isinstance(c, int) and 0 <= c < p for c in raw_coeffs(x))


def outcome(f, *args):
    """('ok', value) or ('raise', ExceptionTypeName)."""
    try:
        return ("ok", f(*args))
    except RecursionError:
        return ("raise", "RecursionError")
    except Exception as e:  # noqa: BLE001 - exceptions are outcomes of the code under test
        return ("raise", type(e).__name__)


def opt_norm(cfg, P):
    """optimized (projective x/z, y/z) library point -> model affine point / None."""
    F = cfg.F
    x, y, z = (cfg.mod(c) for c in P)
    if F.is_zero(z):
        return None
    iz = F.inv(z)
    return (F.mul(x, iz), F.mul(y, iz))


def ref_norm(cfg, P):
    if P is None:
        return None
    x, y = P
    return (cfg.mod(x), cfg.mod(y))


def opt_pt(cfg, P, lam=None, fq_coeffs=False):
    """model affine point -> optimized library triple scaled by lam (model element);
    fq_coeffs: extension-field coordinates carry FQ objects instead of ints"""
    F = cfg.F
    if lam is None:
        lam = F.one
    if P is None:
        raise ValueError("use explicit infinity representatives")
    mk = cfg.lib_fq if fq_coeffs else cfg.lib
    return (mk(F.mul(P[0], lam)), mk(F.mul(P[1], lam)), mk(lam))


def ref_pt(cfg, P):
    if P is None:
        return None
    return (cfg.lib(P[0]), cfg.lib(P[1]))


# --------------------------------------------------------------------------------------------
# long histories: anchors evaluated again after many distinct other inputs
def checkpoints(n):
    """{1, 2, 3, 4, 6, 8, 12, 16, ...} up to n, and n"""
    out, c = set(), 1
    while c <= n:
        out |= {c, c + c // 2}
        c *= 2
    out.add(n)
    return {x for x in out if x <= n}


def sweep(call, anchors, distinct, n, expect=None):
    """History: call(a) for every anchor; then call(d) for n pairwise distinct further inputs d; after 1, 2, 3,
    4, 6, 8, 12, ... of them every anchor again.  `expect(a)` gives the required outcome (default: the
    outcome of the first call).  Returns None or (after, anchor index, required, observed): a bounded
    table of recent results must not serve a stale or displaced entry."""
    first = []
    for i, a_ in enumerate(anchors):
        o = call(a_)
        want = expect(a_) if expect is not None else o
        if o != want:
            return (0, i, want, o)
        first.append(want)
    cps = checkpoints(n)
    for j, d in enumerate(distinct, 1):
        if j > n:
            break
        call(d)
        if j in cps:
            for i, a_ in enumerate(anchors):
                o = call(a_)
                if o != first[i]:
                    return (j, i, first[i], o)
    return None

"""Bounded exhaustive exploration ("model checking") machinery for ethereum/py_ecc.

See /verif/DESIGN.md.  Everything here runs under /venv/bin/python with the standard
library only; the code under test is imported from /repo's working tree.
"""

"""Tiny pairing-friendly configurations: run the working tree's bn128 / bls12_381 curve and
pairing modules (reference and optimized) with their constants substituted (mc.cfgload)."""
import json
import os

from . import cfgload
from .core import ROOT
from .model.zp import Fp, Fpk
from .model.ec import Curve

_TABLE = None


def table():
    global _TABLE
    if _TABLE is None:
        with open(os.path.join(ROOT, "golden", "tiny_curves.json")) as f:
            _TABLE = {c["name"]: c for c in json.load(f)}
    return _TABLE


def _fq2(v):
    return "FQ2([%d, %d])" % (v[0], v[1])


def overrides(c):
    fam = "bn128" if c["family"] == "BN" else "bls12_381"
    other = "bls12_381" if fam == "bn128" else "bn128"
    p = c["p"]
    fp = (
        "{%r: {'field_modulus': %d, 'fq2_modulus_coeffs': (1, 0), 'fq12_modulus_coeffs': %r},"
        " %r: {'field_modulus': %d, 'fq2_modulus_coeffs': (1, 0), 'fq12_modulus_coeffs': %r}}"
        % (fam, p, tuple(c["fq12_modulus_coeffs"]), other, p, tuple(c["fq12_modulus_coeffs"]))
    )
    b2 = "FQ2([%d, 0]) / FQ2([9, 1])" % c["b"] if fam == "bn128" else "FQ2((%d, %d))" % (c["b"], c["b"])
    ov = {"py_ecc.fields.field_properties": {"field_properties": fp}}
    G1, G2 = c["G1"], c["G2"]
    ref_curve = {
        "curve_order": repr(c["r"]), "b": "FQ(%d)" % c["b"], "b2": b2,
        "b12": "FQ12([%d] + [0] * 11)" % c["b"],
        "G1": "(FQ(%d), FQ(%d))" % (G1[0], G1[1]),
        "G2": "(%s, %s)" % (_fq2(G2[0]), _fq2(G2[1])),
    }
    opt_curve = dict(ref_curve)
    opt_curve["G1"] = "(FQ(%d), FQ(%d), FQ(1))" % (G1[0], G1[1])
    opt_curve["G2"] = "(%s, %s, FQ2.one())" % (_fq2(G2[0]), _fq2(G2[1]))
    ref_pair = {"ate_loop_count": repr(c["ate_loop_count"]),
                "log_ate_loop_count": repr(c["log_ate_loop_count"])}
    opt_pair = dict(ref_pair)
    opt_pair["pseudo_binary_encoding"] = "PBE(%r)" % (c["pseudo_binary_encoding"],)
    if fam == "bn128":
        ov["py_ecc.bn128.bn128_curve"] = ref_curve
        ov["py_ecc.bn128.bn128_pairing"] = ref_pair
        ov["py_ecc.optimized_bn128.optimized_curve"] = opt_curve
        ov["py_ecc.optimized_bn128.optimized_pairing"] = opt_pair
    else:
        ov["py_ecc.bls12_381.bls12_381_curve"] = ref_curve
        ov["py_ecc.bls12_381.bls12_381_pairing"] = ref_pair
        ov["py_ecc.optimized_bls12_381.optimized_curve"] = opt_curve
        ov["py_ecc.optimized_bls12_381.optimized_pairing"] = opt_pair
    return fam, ov


class TinyCfg:
    def __init__(self, name):
        c = table()[name]
        self.c = c
        self.name = name
        fam, ov = overrides(c)
        self.fam = fam
        self.alias = "cfg_" + name.replace("-", "_")
        cfgload.install(self.alias, ov)
        if fam == "bn128":
            self.ref_curve = cfgload.load(self.alias, ov, "bn128.bn128_curve")
            self.ref_pair = cfgload.load(self.alias, ov, "bn128.bn128_pairing")
            self.opt_curve = cfgload.load(self.alias, ov, "optimized_bn128.optimized_curve")
            self.opt_pair = cfgload.load(self.alias, ov, "optimized_bn128.optimized_pairing")
        else:
            self.ref_curve = cfgload.load(self.alias, ov, "bls12_381.bls12_381_curve")
            self.ref_pair = cfgload.load(self.alias, ov, "bls12_381.bls12_381_pairing")
            self.opt_curve = cfgload.load(self.alias, ov, "optimized_bls12_381.optimized_curve")
            self.opt_pair = cfgload.load(self.alias, ov, "optimized_bls12_381.optimized_pairing")
        cfgload.check_all_used(self.alias)
        p = c["p"]
        self.p, self.r = p, c["r"]
        self.F1, self.F2 = Fp(p), Fpk(p, (1, 0))
        self.F12 = Fpk(p, tuple(c["fq12_modulus_coeffs"]))
        self.E1 = Curve(self.F1, 0, c["b"])
        self.E2 = Curve(self.F2, 0, tuple(c["b2"]))
        self.G1 = tuple(c["G1"])
        self.G2 = (tuple(c["G2"][0]), tuple(c["G2"][1]))
        # model-side validation of the table
        assert self.E1.on_curve(self.G1) and self.E2.on_curve(self.G2)
        assert self.E1.mul(self.G1, self.r) is None and self.E2.mul(self.G2, self.r) is None
        assert self.ref_curve.field_modulus == p and self.opt_curve.field_modulus == p
        assert self.ref_curve.curve_order == self.r and self.opt_curve.curve_order == self.r
        assert self.ref_curve.FQ.field_modulus == p and self.opt_curve.FQ12.field_modulus == p


_cfgs = {}


def get(name):
    if name not in _cfgs:
        _cfgs[name] = TinyCfg(name)
    return _cfgs[name]

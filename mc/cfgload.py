"""Configuration-substituting loader (DESIGN 5.1, mechanism 3).

Serves an alias package `cfg_<name>` from the *source files of /repo/py_ecc*.  An AST pass
changes exactly two kinds of node:
  (a) `from py_ecc... import` / `import py_ecc...`  ->  the alias package,
  (b) module-level `NAME = ...` / `NAME: T = ...` whose NAME is in the override table of
      that module -> the override expression.
FunctionDef / ClassDef nodes are untouched, so every function body executed is the working
tree's.  An override that matches no assignment is a hard error.
"""
import ast
import importlib
import importlib.abc
import importlib.util
import os
import sys

from .core import REPO

SRC = os.path.join(REPO, "py_ecc")
_installed = {}


class PBE(list):
    """Shim for the optimized Miller loops' literal slice `pseudo_binary_encoding[63::-1]`
    (meaning: skip the top digit): on a substituted, shorter encoding `[k::-1]` starts at
    len-2 whatever k is.  Declared in DESIGN 5.1."""

    def __getitem__(self, i):
        if isinstance(i, slice) and i.step == -1 and i.stop is None and i.start is not None:
            return list.__getitem__(self, slice(len(self) - 2, None, -1))
        return list.__getitem__(self, i)


class _Rewriter(ast.NodeTransformer):
    def __init__(self, alias, overrides, used):
        self.alias = alias
        self.ov = overrides
        self.used = used
        self.depth = 0

    def _ren(self, name):
        if name == "py_ecc" or name.startswith("py_ecc."):
            return self.alias + name[len("py_ecc"):]
        return name

    def visit_ImportFrom(self, node):
        if node.level == 0 and node.module:
            node.module = self._ren(node.module)
        return node

    def visit_Import(self, node):
        for a in node.names:
            a.name = self._ren(a.name)
        return node

    def visit_FunctionDef(self, node):
        return node  # bodies untouched

    visit_AsyncFunctionDef = visit_FunctionDef
    visit_ClassDef = visit_FunctionDef
    visit_Lambda = visit_FunctionDef

    def visit_Assign(self, node):
        if len(node.targets) == 1 and isinstance(node.targets[0], ast.Name):
            n = node.targets[0].id
            if n in self.ov:
                node.value = ast.parse(self.ov[n], mode="eval").body
                self.used.add(n)
        return node

    def visit_AnnAssign(self, node):
        if isinstance(node.target, ast.Name) and node.target.id in self.ov and node.value is not None:
            node.value = ast.parse(self.ov[node.target.id], mode="eval").body
            self.used.add(node.target.id)
        return node

    def generic_visit(self, node):
        # only module-level statements and the bodies of module-level if/try are visited
        return super().generic_visit(node)


class _Finder(importlib.abc.MetaPathFinder, importlib.abc.Loader):
    def __init__(self, alias, overrides):
        self.alias = alias
        self.overrides = overrides  # {"py_ecc.x.y": {"NAME": "expr"}}
        self.used = {k: set() for k in overrides}
        self.loaded = set()

    def _path(self, fullname):
        rel = fullname[len(self.alias):].lstrip(".")
        base = os.path.join(SRC, *rel.split(".")) if rel else SRC
        if os.path.isdir(base) and os.path.exists(os.path.join(base, "__init__.py")):
            return os.path.join(base, "__init__.py"), True
        if os.path.exists(base + ".py"):
            return base + ".py", False
        return None, False

    def find_spec(self, fullname, path=None, target=None):
        if fullname != self.alias and not fullname.startswith(self.alias + "."):
            return None
        fn, is_pkg = self._path(fullname)
        if fn is None:
            return None
        spec = importlib.util.spec_from_loader(fullname, self, origin=fn, is_package=is_pkg)
        if is_pkg:
            spec.submodule_search_locations = [os.path.dirname(fn)]
        return spec

    def create_module(self, spec):
        return None

    def exec_module(self, module):
        fullname = module.__name__
        fn, _ = self._path(fullname)
        real = "py_ecc" + fullname[len(self.alias):]
        with open(fn) as f:
            src = f.read()
        tree = ast.parse(src, filename=fn)
        ov = self.overrides.get(real, {})
        used = self.used.setdefault(real, set())
        # visit only top-level statements (and bodies of top-level If/Try blocks)
        rw = _Rewriter(self.alias, ov, used)
        tree = rw.visit(tree)
        ast.fix_missing_locations(tree)
        module.__file__ = fn
        module.__dict__["PBE"] = PBE
        code = compile(tree, fn, "exec")
        exec(code, module.__dict__)
        missing = set(ov) - used
        if missing:
            raise ImportError("cfgload: overrides %s matched no module-level assignment in %s"
                              % (sorted(missing), real))
        self.loaded.add(real)


def install(alias, overrides):
    """Install (idempotently) the alias package.  Returns the finder."""
    if alias in _installed:
        if _installed[alias].overrides != overrides:
            raise RuntimeError("alias %s already installed with different overrides" % alias)
        return _installed[alias]
    f = _Finder(alias, overrides)
    sys.meta_path.insert(0, f)
    _installed[alias] = f
    return f


def load(alias, overrides, module):
    """import `py_ecc.<module>` under the configuration `alias`."""
    install(alias, overrides)
    return importlib.import_module(alias + ("." + module if module else ""))


def check_all_used(alias):
    f = _installed[alias]
    for real, ov in f.overrides.items():
        if real in f.loaded:
            missing = set(ov) - f.used.get(real, set())
            if missing:
                raise ImportError("cfgload: unused overrides %s in %s" % (missing, real))


# ------------------------------------------------------------------ secp256k1
def secp_overrides(P, B, N, Gx, Gy, A=0):
    return {"py_ecc.secp256k1.secp256k1": {
        "P": repr(P), "N": repr(N), "A": repr(A), "B": repr(B), "Gx": repr(Gx), "Gy": repr(Gy)}}


def load_secp(P, B, N, Gx, Gy):
    alias = "cfg_secp_%d_%d" % (P, B)
    return load(alias, secp_overrides(P, B, N, Gx, Gy), "secp256k1.secp256k1")

"""Canonical deep serialisation of values and of all py_ecc module / class state (C20).

canon(v): JSON-able canonical form.  Field elements become (qualified class, modulus, integer
coefficients, modulus coefficients, remaining instance attributes); a memoised `sgn0` entry is
dropped only after it has been checked against RFC 9380 sgn0 of the stored coefficients (a
stale memo is reported); the reference FQP's per-instance coefficient class is replaced by its
modulus.  Containers keep their type.  Functions, modules and other code objects are not data.
snapshot(): {path: digest} for every data global of every loaded py_ecc module and every data
attribute of every class defined in py_ecc, plus the interpreter recursion limit.
"""
import hashlib
import json
import sys
import types

from .model.h2c import sgn0_any

_SKIP_TYPES = (types.ModuleType, types.FunctionType, types.BuiltinFunctionType, types.MethodType,
               classmethod, staticmethod, property)


def _is_field_el(v):
    t = type(v)
    return t.__module__.startswith("py_ecc.fields") or (
        hasattr(t, "field_modulus") and (hasattr(v, "coeffs") or hasattr(v, "n")) and hasattr(t, "__mul__")
        and any(c.__module__.startswith("py_ecc.fields") for c in t.__mro__))


def _coef(c):
    if isinstance(c, int):
        return int(c)
    if hasattr(c, "n"):
        return int(c.n)
    return {"?": repr(c)[:60]}


def canon(v, _depth=0):
    if v is None or isinstance(v, (bool, str)):
        return v
    if isinstance(v, int):
        return v if abs(v) < (1 << 53) else {"i": hex(v)}
    if isinstance(v, float):
        return {"f": repr(v)}
    if isinstance(v, (bytes, bytearray)):
        return {"b" if isinstance(v, bytes) else "ba": bytes(v).hex()}
    if _depth > 40:
        return {"deep": type(v).__name__}
    if isinstance(v, (list, tuple)):
        return {"t": "list" if isinstance(v, list) else ("tuple" if type(v) is tuple else type(v).__name__),
                "v": [canon(x, _depth + 1) for x in v]}
    if isinstance(v, dict):
        items = [[canon(k, _depth + 1), canon(x, _depth + 1)] for k, x in v.items()]
        items.sort(key=lambda kv: json.dumps(kv[0], sort_keys=True))
        return {"d": items}
    if isinstance(v, (set, frozenset)):
        xs = [canon(x, _depth + 1) for x in v]
        xs.sort(key=lambda x: json.dumps(x, sort_keys=True))
        return {"s": xs}
    if isinstance(v, type):
        return {"cls": "%s.%s" % (v.__module__, v.__qualname__)}
    if _is_field_el(v):
        t = type(v)
        name = "%s.%s" % (t.__module__, t.__qualname__)
        p = getattr(v, "field_modulus", None)
        d = dict(getattr(v, "__dict__", {}))
        out = {"el": name, "p": canon(p)}
        if "coeffs" in d or hasattr(v, "coeffs"):
            cs = [_coef(c) for c in v.coeffs]
            out["c"] = [canon(c) for c in cs]
            out["ct"] = type(v.coeffs).__name__
            if "sgn0" in d and isinstance(p, int) and all(isinstance(c, int) for c in cs):
                if d["sgn0"] != sgn0_any(tuple(cs), p):
                    out["stale_sgn0"] = canon(d["sgn0"])
            d.pop("sgn0", None)
            d.pop("coeffs", None)
            fc = d.pop("FQP_corresponding_FQ_class", None)
            if fc is not None:
                out["fqcls_p"] = canon(getattr(fc, "field_modulus", None))
            if "modulus_coeffs" in d:
                out["mc"] = [canon(_coef(c)) for c in d.pop("modulus_coeffs")]
        else:
            out["n"] = canon(_coef(v))
            if "sgn0" in d and isinstance(p, int) and isinstance(v.n, int):
                if d["sgn0"] != sgn0_any(int(v.n), p):
                    out["stale_sgn0"] = canon(d["sgn0"])
            d.pop("sgn0", None)
            d.pop("n", None)
        if d:
            out["x"] = canon(d, _depth + 1)
        return out
    if isinstance(v, _SKIP_TYPES) or callable(v):
        return {"o": type(v).__name__}
    if hasattr(v, "__dict__") and not isinstance(v, type):
        return {"obj": type(v).__name__, "x": canon(dict(vars(v)), _depth + 1)}
    return {"o": type(v).__name__, "r": repr(v)[:80]}


def digest(c):
    return hashlib.sha1(json.dumps(c, sort_keys=True, separators=(",", ":")).encode()).hexdigest()[:16]


def _is_data(val):
    if isinstance(val, _SKIP_TYPES) or isinstance(val, type):
        return False
    m = type(val).__module__
    if m in ("typing", "abc", "functools") or m.startswith("typing"):
        return False
    if callable(val) and not _is_field_el(val):
        return False
    return True


def py_ecc_modules():
    return sorted((n, m) for n, m in sys.modules.items()
                  if m is not None and (n == "py_ecc" or n.startswith("py_ecc.")))


EMPTY = {digest(canon(x)) for x in ({}, [], (), set(), frozenset(), None, b"", "", bytearray())}


def cache_like(path, s0):
    """A path whose value at import time was an empty container / None, or that did not exist at
    import time, holds mutable working state (a memo table), not a constant: a change there is
    not by itself a purity violation - only results can tell (C20 compares results)."""
    return path not in s0 or s0[path] in EMPTY


def snapshot():
    out = {"sys.recursionlimit": digest(sys.getrecursionlimit())}
    classes = {}
    for mname, mod in py_ecc_modules():
        for name, val in list(vars(mod).items()):
            if name.startswith("__") and name.endswith("__"):
                continue
            if isinstance(val, type):
                if val.__module__.startswith("py_ecc"):
                    classes["%s.%s" % (val.__module__, val.__qualname__)] = val
                continue
            if not _is_data(val):
                continue
            out["%s:%s" % (mname, name)] = digest(canon(val))
    for cname, cls in sorted(classes.items()):
        for attr, val in list(vars(cls).items()):
            if attr.startswith("__") and attr.endswith("__"):
                continue
            if not _is_data(val) or type(val).__name__ in ("cached_property", "getset_descriptor",
                                                            "member_descriptor", "_abc_data"):
                continue
            out["cls %s.%s" % (cname, attr)] = digest(canon(val))
    return out


def diff(a, b):
    keys = sorted(set(a) | set(b))
    return [k for k in keys if a.get(k) != b.get(k)]

"""MANIFEST.setup_cmd: nothing to build (pure Python, stdlib only); validates the trusted
base once: reference models' exhaustive self-checks, derived curve parameters, tiny-curve
table, and that py_ecc is imported from /repo's working tree."""
import os
import sys
import time


def main():
    t = time.time()
    from .core import REPO
    import py_ecc

    src = os.path.realpath(os.path.dirname(py_ecc.__file__))
    assert src.startswith(os.path.realpath(REPO) + os.sep), "py_ecc not imported from " + REPO
    from .model import zp, ec, params

    zp.selfcheck()
    ec.selfcheck()
    params.selfcheck()
    for name in ("hkdf", "h2c", "zcash", "bls", "ecdsa"):
        try:
            m = __import__("mc.model." + name, fromlist=["selfcheck"])
        except ImportError:
            continue
        m.selfcheck()
    os.makedirs(os.path.join(os.path.dirname(os.path.dirname(os.path.abspath(__file__))), "evidence"), exist_ok=True)
    print("setup ok (%.1fs): models self-checked, py_ecc from %s" % (time.time() - t, src))
    return 0


if __name__ == "__main__":
    sys.exit(main())

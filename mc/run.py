"""CLI:  python -m mc.run <ID> [--tier quick|thorough] [--replay FILE] [--jobs N]

exit 0: property held on everything explored (KNOWN-FINDING lines may be printed)
exit 1: `VIOLATION property=<id> replay=<path>` — an unlisted violation, confirmed by
        replaying it in two fresh interpreters
exit 2: harness error (never accompanied by a VIOLATION line)
"""
import argparse
import importlib
import os
import sys
import time
import traceback

from . import core


def main(argv=None):
    ap = argparse.ArgumentParser()
    ap.add_argument("pid")
    ap.add_argument("--tier", default=None, choices=["quick", "thorough"])
    ap.add_argument("--replay", default=None)
    ap.add_argument("--jobs", type=int, default=None)
    a = ap.parse_args(argv)
    tier = a.tier or os.environ.get("VERIF_TIER") or "quick"
    if tier not in ("quick", "thorough"):
        tier = "quick"
    try:
        seed = int(os.environ.get("VERIF_SEED", "0"))
    except ValueError:
        seed = 0
    jobs = a.jobs or int(os.environ.get("VERIF_JOBS", "0")) or min(16, os.cpu_count() or 1)

    try:
        import py_ecc  # noqa: F401

        src = os.path.realpath(os.path.dirname(py_ecc.__file__))
        if not src.startswith(os.path.realpath(core.REPO) + os.sep):
            print("HARNESS-ERROR py_ecc imported from %s, not from %s" % (src, core.REPO))
            return 2
    except Exception:
        traceback.print_exc()
        print("HARNESS-ERROR cannot import py_ecc from the working tree")
        return 2

    if a.replay:
        try:
            return core.replay_file(a.replay)
        except Exception:
            traceback.print_exc()
            print("HARNESS-ERROR replay raised")
            return 2

    try:
        mod = importlib.import_module("mc.props." + a.pid)
    except ModuleNotFoundError:
        print("HARNESS-ERROR no check for %s" % a.pid)
        return 2
    ctx = core.Ctx(a.pid, tier, seed, jobs)
    try:
        mod.run(ctx)
    except core.HarnessError as e:
        ctx.close()
        print(str(e))
        print("HARNESS-ERROR in a worker task of %s" % a.pid)
        return 2
    except Exception:
        ctx.close()
        traceback.print_exc()
        print("HARNESS-ERROR in %s" % a.pid)
        return 2
    ctx.close()

    findings = core.load_findings()
    by_key = {}
    for name in ctx.order:
        for v in ctx.subs[name].viols:
            by_key.setdefault(v["key"], []).append(v)
    known_lines = []
    unlisted = []
    for key, vs in by_key.items():
        f = core.match_finding(findings, a.pid, key)
        if f is not None:
            known_lines.append({"key": key, "what": f.get("what", ""), "occurrences": len(vs)})
        else:
            unlisted.append((key, vs))
    nviol = sum(len(vs) for _, vs in unlisted)
    level = getattr(mod, "LEVEL", "exploration")
    ev = core.write_evidence(ctx, level, nviol, known_lines)
    cov = ev["coverage"]
    print(
        "%s tier=%s seed=%d level=%s evaluations=%d distinct=%d states=%s transitions=%s "
        "exhaustive=%s wall=%.1fs"
        % (a.pid, tier, seed, level, cov["evaluations"], cov["distinct_nontrivial"],
           cov.get("states", "-"), cov.get("transitions", "-"), cov["exhaustive"], ev["wall_s"])
    )
    for name, d in cov["subchecks"].items():
        print("  %-34s ev=%-9d distinct=%-8d%s%s" % (
            name, d["evaluations"], d["distinct_nontrivial"],
            (" states=%d" % d["states"]) if "states" in d else "",
            (" skipped=%s" % d["skipped_internal"]) if "skipped_internal" in d else ""))
    for k in known_lines:
        print("KNOWN-FINDING: property=%s %s [%s; %d occurrence(s) this run]"
              % (a.pid, k["what"], k["key"], k["occurrences"]))
    if not unlisted:
        return 0

    # Confirm and report unlisted violations (simplest first: tasks are ordered simplest-first).
    rc = 0
    reported = 0
    flaky = 0
    for key, vs in unlisted:
        if reported >= 3:
            print("... further violation keys not replayed: %s" % key)
            continue
        v = vs[0]
        path = core.write_replay(a.pid, v)
        outs = core.confirm_in_fresh_process(a.pid, path)
        if all(o[0] == 1 for o in outs) and outs[0][1] == outs[1][1]:
            print("violation key=%s sub=%s expected=%s observed=%s (%d occurrence(s))"
                  % (key, v["sub"], str(v["expected"])[:200], str(v["observed"])[:200], len(vs)))
            print("VIOLATION property=%s replay=%s" % (a.pid, path))
            rc = 1
            reported += 1
        else:
            # The single case passes in a fresh interpreter.  Either the harness is
            # nondeterministic, or the violation needs the calls that preceded it in the
            # explorer task (hidden state in the library).  Decide by replaying the whole
            # task - a deterministic function of its arguments - in fresh interpreters.
            t = v.get("task")
            ok2 = False
            if t:
                tv = dict(v, fn="mc.core:replay_task", args={"mod": t["mod"], "task": t["task"], "args": t["args"],
                                                               "env": t["env"], "key": key})
                tpath = core.write_replay(a.pid, tv)
                outs2 = core.confirm_in_fresh_process(a.pid, tpath)
                ok2 = all(o[0] == 1 for o in outs2)
                if ok2:
                    print("violation key=%s sub=%s expected=%s observed=%s (%d occurrence(s)); needs the call "
                          "history of its explorer task to manifest (passes when run alone in a fresh interpreter)"
                          % (key, v["sub"], str(v["expected"])[:200], str(v["observed"])[:200], len(vs)))
                    print("VIOLATION property=%s replay=%s" % (a.pid, tpath))
                    rc = 1
                    reported += 1
            if not ok2 and t and v.get("prev_tasks"):
                # still not: the state may have been built by the tasks the same worker ran before
                hv = dict(v, fn="mc.core:replay_tasks", args={"tasks": list(v["prev_tasks"]) + [t], "key": key})
                hv.pop("prev_tasks", None)
                hpath = core.write_replay(a.pid, hv)
                outs3 = core.confirm_in_fresh_process(a.pid, hpath)
                ok2 = all(o[0] == 1 for o in outs3)
                if ok2:
                    print("violation key=%s sub=%s expected=%s observed=%s (%d occurrence(s)); needs the call "
                          "history of its explorer worker (%d earlier tasks, listed in the replay file) to manifest"
                          % (key, v["sub"], str(v["expected"])[:200], str(v["observed"])[:200], len(vs), len(v["prev_tasks"])))
                    print("VIOLATION property=%s replay=%s" % (a.pid, hpath))
                    rc = 1
                    reported += 1
            if not ok2:
                flaky += 1
                print("FLAKY key=%s: in-explorer violation did not replay identically in fresh "
                      "interpreters: %s" % (key, str(outs)[-600:]))
            # History-dependent behaviour *is* a violation of C20 only; elsewhere it is a
            # harness problem and must not be reported as a verdict.
    if rc == 0 and flaky:
        print("HARNESS-ERROR non-reproducible violation(s)")
        return 2
    return rc


if __name__ == "__main__":
    t = time.time()
    sys.exit(main())

"""C07, full-size half (I2): the shipped 254/381-bit configurations."""
import importlib

from ..core import R, rng
from .. import lib
from ..model import params

ME = "mc.props.C07_full"
PKG = {"bn128": ("py_ecc.bn128", "py_ecc.optimized_bn128"),
       "bls12_381": ("py_ecc.bls12_381", "py_ecc.optimized_bls12_381")}
GROUPS = ("E1", "E2", "E12")


def mods(curve):
    return importlib.import_module(PKG[curve][0]), importlib.import_module(PKG[curve][1])


def field_cfg(curve, group, fam):
    """lib.Cfg for the shipped field class of (curve, group, family)."""
    ref, opt = mods(curve)
    M = ref if fam == "ref" else opt
    d = params.curves()[curve]
    if group == "E1":
        return lib.Cfg(fam, d["p"], None, cls=M.FQ)
    if group == "E2":
        return lib.Cfg(fam, d["p"], d["mc2"], cls=M.FQ2)
    return lib.Cfg(fam, d["p"], d["mc12"], cls=M.FQ12)


def model_twist(curve, Q):
    """The standard embedding E'(Fp2) -> E(Fp12), written from its definition:
    Fp2 -> Fp12 by i -> w^6 - c (c = 9 for BN, 1 for BLS12-381); D-type twist (BN)
    psi(x, y) = (x w^2, y w^3); M-type twist (BLS12-381) psi(x, y) = (x / w^2, y / w^3)."""
    if Q is None:
        return None
    d = params.curves()[curve]
    F12 = d["F"][2]
    c = 9 if curve == "bn128" else 1

    def emb(e):
        v = [0] * 12
        v[0] = (e[0] - c * e[1]) % d["p"]
        v[6] = e[1] % d["p"]
        return tuple(v)

    w = tuple([0, 1] + [0] * 10)
    w2 = F12.mul(w, w)
    w3 = F12.mul(w2, w)
    if curve == "bn128":
        return (F12.mul(emb(Q[0]), w2), F12.mul(emb(Q[1]), w3))
    return (F12.div(emb(Q[0]), w2), F12.div(emb(Q[1]), w3))


def cast12(curve, P):
    if P is None:
        return None
    return (tuple([P[0]] + [0] * 11), tuple([P[1]] + [0] * 11))


def nonsub_points(curve, group, env, count=2):
    """Curve points outside the order-r subgroup, built by the model from x-coordinates."""
    d = params.curves()[curve]
    E = d[group]
    out = []
    if group == "E1":
        if curve == "bn128":
            return []  # cofactor 1
        for P in E.lift_x(0):  # (0, +-2): order 3
            out.append(P)
        x = 1
        while len(out) < 2 + count:
            for P in E.lift_x(x)[:1]:
                if E.mul(P, d["r"]) is not None:
                    out.append(P)
            x += 1
        return out
    x0 = 0
    while len(out) < count:
        for im in (0, 1):
            for P in E.lift_x((x0, im))[:1]:
                if E.mul(P, d["r"]) is not None and len(out) < count:
                    out.append(P)
        x0 += 1
    return out


def point_domain(curve, group, env, quick=True):
    """[(label, model affine point)] - simplest first."""
    d = params.curves()[curve]
    g = rng(env, "pts:%s:%s" % (curve, group))
    r = d["r"]
    k, l = g.randrange(2, r), g.randrange(2, r)
    if group == "E12":
        E1, E2, E12 = d["E1"], d["E2"], d["E12"]
        G1c, G2t = cast12(curve, d["G1"]), model_twist(curve, d["G2"])
        dom = [("O", None), ("cast(G1)", G1c), ("twist(G2)", G2t),
               ("cast(G1)+twist(G2)", E12.add(G1c, G2t)),
               ("-twist(G2)", E12.neg(G2t)),
               ("twist(kG2)", model_twist(curve, E2.mul(d["G2"], k)))]
        if not quick:
            dom.append(("cast(lG1)+twist(kG2)", E12.add(cast12(curve, E1.mul(d["G1"], l)),
                                                         model_twist(curve, E2.mul(d["G2"], k)))))
        return dom
    E = d[group]
    G = d["G1"] if group == "E1" else d["G2"]
    dom = [("O", None), ("G", G), ("2G", E.mul(G, 2)), ("3G", E.mul(G, 3)), ("-G", E.neg(G)),
           ("(r-2)G", E.mul(G, r - 2)), ("kG", E.mul(G, k)), ("lG", E.mul(G, l))]
    for i, P in enumerate(nonsub_points(curve, group, env)):
        dom.append(("nonsub%d" % i, P))
        if i == 0:
            dom.append(("G+nonsub0", E.add(G, P)))
    return dom


def scalings(cfg, env, tag):
    F = cfg.F
    g = rng(env, "lam:" + tag)
    if cfg.mc is None:
        return [F.one, F.el(2), F.el(-1), g.randrange(2, cfg.p)]
    s = tuple(g.randrange(cfg.p) for _ in range(len(cfg.mc)))
    k = len(cfg.mc)
    two_i = tuple([0, 2] + [0] * (k - 2))
    # coefficients that sum to 0 mod p (a multiple of 1 - i), and "almost one" (first coefficient 1, another non-zero)
    sum_zero = tuple([7, cfg.p - 7] + [0] * (k - 2))
    almost_one = tuple([1] + [0] * (k - 2) + [5])
    return [F.one, F.el(2), two_i, sum_zero, almost_one, s]


def _cmp(r, key, args, exp, got):
    if exp != got:
        r.viol(key, ME + ":replay_full", args, exp, got)
        return False
    return True


def container_case(curve, group, fam):
    """[(label, expected, observed)] points handed over as lists instead of tuples (the functions only unpack
    their operands), alone and mixed with tuples of the same and of other points"""
    d = params.curves()[curve]
    E = d[group]
    ref, opt = mods(curve)
    M = ref if fam == "ref" else opt
    cfg = field_cfg(curve, group, fam)
    G = d["G1"] if group == "E1" else d["G2"]
    Pm, Qm = E.mul(G, 5), E.mul(G, 9)
    mk = (lambda X: ref_pt_(cfg, X)) if fam == "ref" else (lambda X: lib.opt_pt(cfg, X, cfg.F.el(3) if cfg.mc is None else None))
    norm = (lambda X: lib.ref_norm(cfg, X)) if fam == "ref" else (lambda X: lib.opt_norm(cfg, X))
    T, L, Q = mk(Pm), list(mk(Pm)), mk(Qm)
    T2 = mk(Pm)  # an equal tuple built separately
    cases = [("add(list, equal tuple)", lambda: M.add(L, T2), E.add(Pm, Pm)), ("add(tuple, equal list)", lambda: M.add(T2, L), E.add(Pm, Pm)),
             ("add(list, same list)", lambda: M.add(L, L), E.add(Pm, Pm)), ("add(list, list of the same values)", lambda: M.add(L, list(T2)), E.add(Pm, Pm)),
             ("add(list, other tuple)", lambda: M.add(L, Q), E.add(Pm, Qm)), ("add(other tuple, list)", lambda: M.add(Q, L), E.add(Pm, Qm)),
             ("add(list, negated tuple)", lambda: M.add(L, M.neg(T)), None), ("double(list)", lambda: M.double(L), E.add(Pm, Pm)),
             ("multiply(list, 5)", lambda: M.multiply(L, 5), E.mul(Pm, 5)), ("neg(list)", lambda: M.neg(L), E.neg(Pm)),
             ("multiply(list, r)", lambda: M.multiply(L, d["r"]), E.mul(Pm, d["r"]))]
    out = []
    for lbl, f, want in cases:
        try:
            got = norm(f())
        except Exception as e:  # noqa: BLE001
            got = "raise " + type(e).__name__
        out.append((lbl, want, got))
    return out


def ref_pt_(cfg, X):
    return lib.ref_pt(cfg, X)


def task_containers(a, env):
    r = R("points-as-lists:%s" % a["curve"])
    for group in ("E1", "E2"):
        for fam in ("ref", "opt"):
            for lbl, exp, got in container_case(a["curve"], group, fam):
                r.ev += 1
                r.dk.add((group, fam, lbl))
                if exp != got:
                    modname = PKG[a["curve"]][0 if fam == "ref" else 1].split(".")[-1]
                    r.viol("C07:%s:%s:list-operand:%s" % (modname, group, lbl.split("(")[0]), "mc.props.C07_full:replay_containers",
                           {"curve": a["curve"], "group": group, "fam": fam}, exp, got, note=lbl)
    r.transitions = r.ev
    r.sample({"curve": a["curve"], "case": "add([x, y], (x, y)) == double((x, y))"})
    return r


def replay_containers(a):
    for lbl, exp, got in container_case(a["curve"], a["group"], a["fam"]):
        if exp != got:
            return {"case": lbl, "expected": exp, "observed": got}
    return None


def failing_calls(curve, fam):
    """history (results and exceptions ignored): curve functions called with operands they refuse or fail
    on - mixed groups, missing coordinates, non-integer scalars, coordinates of another extension degree"""
    ref, opt = mods(curve)
    M = ref if fam == "ref" else opt
    G1, G2 = M.G1, M.G2
    one12 = M.FQ12.one()
    bad = [lambda: M.add(G1, G2), lambda: M.add(G2, G1), lambda: M.multiply(G1, None), lambda: M.multiply(G2, "3"),
           lambda: M.multiply(G1, 2.5), lambda: M.double(None), lambda: M.add(G1, None), lambda: M.neg(G1[:1]),
           lambda: M.is_on_curve(G1, None), lambda: M.eq(G1, G2), lambda: M.multiply(G2[:2] + (one12,), 3),
           lambda: M.add(G2, G2[:2] + (one12,)), lambda: G2[0] * one12, lambda: one12 * G2[0], lambda: M.twist(G1)]
    for f in bad:
        try:
            f()
        except Exception:  # noqa: BLE001
            pass


def run_full_case(a):
    """One full-size case: returns (expected, observed) outcomes.  a: curve, group, fam,
    op, P, Q (model affine or None, lists), lamP, lamQ (model field elements), n."""
    curve, group, fam, op = a["curve"], a["group"], a["fam"], a["op"]
    if a.get("after_failing_calls", True):
        failing_calls(curve, fam)
    d = params.curves()[curve]
    E = d[group]
    ref, opt = mods(curve)
    M = ref if fam == "ref" else opt
    cfg = field_cfg(curve, group, fam)
    F = cfg.F

    def tup(v):
        if v is None:
            return None
        if cfg.mc is None:
            return (v[0], v[1])
        return (tuple(v[0]), tuple(v[1]))

    def el(v):
        return v if cfg.mc is None else tuple(v)

    def mk(Pm, lam, infrep):
        if fam == "ref":
            return lib.ref_pt(cfg, Pm)
        if Pm is None:
            if infrep == "Zfq":  # z == 0 carried by FQ objects (extension fields)
                return (cfg.lib(F.one), cfg.lib(F.one), cfg.lib_fq(F.zero))
            t = {"Z": (F.one, F.one, F.zero), "010": (F.zero, F.one, F.zero),
                 "000": (F.zero, F.zero, F.zero)}[infrep or "Z"]
            return tuple(cfg.lib(c) for c in t)
        return lib.opt_pt(cfg, Pm, el(lam) if lam is not None else None, bool(a.get("fqc")))

    nrm = (lambda X: lib.opt_norm(cfg, X)) if fam == "opt" else (lambda X: lib.ref_norm(cfg, X))
    Pm, Qm = tup(a.get("P")), tup(a.get("Q"))
    P = mk(Pm, a.get("lamP"), a.get("infP"))
    b_lib = {"E1": M.b, "E2": M.b2, "E12": M.b12}[group]
    if op in ("add", "eq"):
        Q = mk(Qm, a.get("lamQ"), a.get("infQ"))
    if op == "add":
        exp = ("ok", E.add(Pm, Qm))
        got = lib.outcome(M.add, P, Q)
    elif op == "eq":
        exp = ("ok", Pm == Qm)
        got = lib.outcome(M.eq, P, Q)
        return exp, got if got[0] != "ok" else ("ok", got[1] if got[1] in (True, False) else repr(got[1]))
    elif op == "double":
        exp = ("ok", E.add(Pm, Pm))
        got = lib.outcome(M.double, P)
    elif op == "neg":
        exp = ("ok", E.neg(Pm))
        got = lib.outcome(M.neg, P)
    elif op == "multiply":
        exp = ("ok", E.mul(Pm, a["n"]))
        got = lib.outcome(M.multiply, P, a["n"])
    elif op == "is_on_curve":
        exp = ("ok", True)
        return exp, lib.outcome(M.is_on_curve, P, b_lib)
    elif op == "is_inf":
        exp = ("ok", Pm is None)
        return exp, lib.outcome(M.is_inf, P)
    else:
        raise ValueError(op)
    if got[0] == "ok":
        try:
            got = ("ok", nrm(got[1]))
        except Exception as e:  # noqa: BLE001
            got = ("malformed-result", type(e).__name__)
    return exp, got


def replay_full(a):
    exp, got = run_full_case(a)
    if exp == got:
        return None
    return {"expected": exp, "observed": got}


def _l(v):
    """model value -> JSON-able"""
    if v is None:
        return None
    if isinstance(v, tuple):
        return [_l(x) for x in v]
    return v


def task_full_pairs(a, env):
    curve, group = a["curve"], a["group"]
    r = R("full:%s:%s" % (curve, group))
    quick = env["tier"] == "quick"
    dom = point_domain(curve, group, env, quick)
    r.states += len(dom)
    for fam in ("ref", "opt"):
        cfg = field_cfg(curve, group, fam)
        lams = scalings(cfg, env, "%s:%s" % (curve, group)) if fam == "opt" else [None]
        if group == "E12":
            lams = lams[:2] if quick else lams[:3]
        modname = PKG[curve][0 if fam == "ref" else 1].split(".")[-1]
        for (lp, Pm) in dom:
            for op in ("double", "neg", "is_on_curve", "is_inf"):
                for lam in lams:
                    if Pm is None and lam is not lams[0]:
                        continue
                    args = {"curve": curve, "group": group, "fam": fam, "op": op, "P": _l(Pm),
                            "lamP": _l(lam)}
                    exp, got = run_full_case(args)
                    r.ev += 1
                    r.transitions += 1
                    _cmp(r, "C07:%s:%s:%s:%s" % (modname, group, op, "inf" if Pm is None else "pt"),
                         args, exp, got)
            for (lq, Qm) in dom:
                rel = ("inf" if Pm is None or Qm is None else
                       "same" if Pm == Qm else "opposite" if Pm[0] == Qm[0] else "generic")
                # all pairs with the first scaling; the other scalings on a diagonal so that
                # every point is seen in every scaling on both sides
                combos = [(lams[0], lams[0])]
                if fam == "opt" and Pm is not None and Qm is not None:
                    combos += [(lams[i], lams[(i + 1) % len(lams)]) for i in range(len(lams))]
                    if rel in ("same", "opposite"):
                        combos += [(x, y) for x in lams for y in lams if (x, y) not in combos]
                for (la, lb) in combos:
                    for op in ("add", "eq"):
                        args = {"curve": curve, "group": group, "fam": fam, "op": op,
                                "P": _l(Pm), "Q": _l(Qm), "lamP": _l(la), "lamQ": _l(lb)}
                        exp, got = run_full_case(args)
                        r.ev += 1
                        r.transitions += 1
                        r.dk.add((curve, group, fam, op, lp, lq, rel))
                        _cmp(r, "C07:%s:%s:%s:%s" % (modname, group, op, rel), args, exp, got)
        if fam == "opt" and group == "E2":
            # coordinates whose Fp2 coefficients are FQ objects instead of ints (a constructor form
            # the optimized classes accept and keep): same results required
            for (lp, Pm) in dom:
                if Pm is None:
                    continue
                for op in ("double", "neg", "is_on_curve", "is_inf"):
                    args = {"curve": curve, "group": group, "fam": fam, "op": op, "P": _l(Pm),
                            "lamP": _l(lams[0]), "fqc": True}
                    exp, got = run_full_case(args)
                    r.ev += 1
                    _cmp(r, "C07:%s:%s:%s:fq-coefficients" % (modname, group, op), args, exp, got)
                for (lq, Qm) in dom[1:5]:
                    for op in ("add", "eq"):
                        args = {"curve": curve, "group": group, "fam": fam, "op": op, "P": _l(Pm), "Q": _l(Qm),
                                "lamP": _l(lams[0]), "lamQ": _l(lams[1]), "fqc": True}
                        exp, got = run_full_case(args)
                        r.ev += 1
                        _cmp(r, "C07:%s:%s:%s:fq-coefficients" % (modname, group, op), args, exp, got)
                args = {"curve": curve, "group": group, "fam": fam, "op": "multiply", "P": _l(Pm), "n": 11,
                        "lamP": _l(lams[0]), "fqc": True}
                exp, got = run_full_case(args)
                r.ev += 1
                _cmp(r, "C07:%s:%s:multiply:fq-coefficients" % (modname, group), args, exp, got)
        if fam == "opt":
            # infinity representatives at full size
            for inf in ("Z", "010", "000") + (("Zfq",) if group != "E1" else ()):
                for op in ("is_on_curve", "is_inf", "double", "neg"):
                    args = {"curve": curve, "group": group, "fam": fam, "op": op, "P": None, "infP": inf}
                    exp, got = run_full_case(args)
                    r.ev += 1
                    _cmp(r, "C07:%s:%s:%s:inf:%s" % (modname, group, op, inf), args, exp, got)
                for (lq, Qm) in dom[:4]:
                    for op in ("add", "eq"):
                        for swap in (False, True):
                            args = {"curve": curve, "group": group, "fam": fam, "op": op,
                                    "P": None, "infP": inf, "Q": _l(Qm)}
                            if swap:
                                args = {"curve": curve, "group": group, "fam": fam, "op": op,
                                        "P": _l(Qm), "Q": None, "infQ": inf}
                            exp, got = run_full_case(args)
                            r.ev += 1
                            _cmp(r, "C07:%s:%s:%s:inf%s" % (modname, group, op,
                                                           ":zero-triple" if inf == "000" else ""),
                                 args, exp, got)
    r.sample({"curve": curve, "group": group, "points": [l for l, _ in dom],
              "case": "add/eq on all ordered pairs; double/neg/is_on_curve/is_inf on all; "
                      "reference and optimized (scaled representatives)"})
    return r


def scalar_domain(curve, env, quick, group, fam):
    d = params.curves()[curve]
    r_, p = d["r"], d["p"]
    g = rng(env, "scal:%s" % curve)
    ns = [0, 1, 2, 3, r_ - 1, r_, r_ + 1, 2 * p - r_, 2**53 - 1, 2**53 + 1,
          g.getrandbits(256) | (1 << 255), g.getrandbits(400) | (1 << 399),
          g.getrandbits(640) | (1 << 639)]
    # all-ones / just-below-a-power-of-two and sparse patterns (bit-length and window arithmetic)
    ns += [2**64 - 1, 2**100 - 3, 2**128 - 1, 2**200 - 1, 2**254 - 1, 2**64, 2**128 + 1, 2**255 - 19]
    # equal hash() as the small scalars 2 and 3 (CPython hashes ints modulo 2^61 - 1)
    ns += [2**61 - 1 + 2, 3 + 5 * (2**61 - 1)]
    if group == "E12" and fam == "ref":
        # reference FQ12 inversion costs ~10 ms: keep the long scalars for the thorough tier
        ns = [0, 1, 2, 3, 2**53 + 1] + ([] if quick else [r_ - 1, r_, r_ + 1, ns[-1]])
    elif group == "E12" and quick:
        ns = [0, 1, 2, 3, r_ - 1, r_, r_ + 1, 2**53 + 1, ns[-1]]
    return ns


def task_full_mul(a, env):
    curve, group = a["curve"], a["group"]
    r = R("full-mul:%s:%s" % (curve, group))
    quick = env["tier"] == "quick"
    dom = point_domain(curve, group, env, quick)
    d = params.curves()[curve]
    pts = [x for x in dom if x[0] in ("G", "kG", "nonsub0", "nonsub2", "O", "cast(G1)", "twist(G2)",
                                      "cast(G1)+twist(G2)")]
    for fam in (a["fam"],):
        modname = PKG[curve][0 if fam == "ref" else 1].split(".")[-1]
        cfg = field_cfg(curve, group, fam)
        lams = scalings(cfg, env, "%s:%s" % (curve, group)) if fam == "opt" else [None]
        for (lp, Pm) in pts:
            in_sub = Pm is None or not lp.startswith("nonsub")
            for n in scalar_domain(curve, env, quick, group, fam):
                lam = lams[(n % 3 + 1) % len(lams)] if fam == "opt" and Pm is not None else lams[0]
                args = {"curve": curve, "group": group, "fam": fam, "op": "multiply", "P": _l(Pm),
                        "lamP": _l(lam), "n": n}
                exp, got = run_full_case(args)
                r.ev += 1
                r.transitions += 1
                r.dk.add((curve, group, fam, lp, n))
                _cmp(r, "C07:%s:%s:multiply:%s" % (modname, group, "inf" if Pm is None else "pt"),
                     args, exp, got)
    r.sample({"curve": curve, "group": group, "points": [l for l, _ in pts],
              "scalars": "0,1,2,3,r-1,r,r+1,2p-r,2^53-1,2^53+1,seeded 256/400/640-bit"})
    return r


def task_full_consts(a, env):
    """Published constants vs values derived from the family parameters (mc.model.params)."""
    r = R("full-constants")
    from py_ecc.fields.field_properties import field_properties

    for curve, d in params.curves().items():
        ref, opt = mods(curve)
        fp = field_properties[curve]
        checks = [
            ("field_properties.field_modulus", fp["field_modulus"], d["p"]),
            ("field_properties.fq2_modulus_coeffs", tuple(fp["fq2_modulus_coeffs"]), tuple(d["mc2"])),
            ("field_properties.fq12_modulus_coeffs", tuple(fp["fq12_modulus_coeffs"]), tuple(d["mc12"])),
        ]
        for fam, M in (("ref", ref), ("opt", opt)):
            c1, c2, c12 = (field_cfg(curve, g, fam) for g in GROUPS)
            nm = M.__name__.split(".")[-1]
            nrm = (lambda c, X: lib.opt_norm(c, X)) if fam == "opt" else (lambda c, X: lib.ref_norm(c, X))
            checks += [
                (nm + ".field_modulus", M.field_modulus, d["p"]),
                (nm + ".curve_order", M.curve_order, d["r"]),
                (nm + ".FQ.field_modulus", M.FQ.field_modulus, d["p"]),
                (nm + ".FQ2.field_modulus", M.FQ2.field_modulus, d["p"]),
                (nm + ".FQ12.field_modulus", M.FQ12.field_modulus, d["p"]),
                (nm + ".FQ2_MODULUS_COEFFS", tuple(x % d["p"] for x in M.FQ2.FQ2_MODULUS_COEFFS),
                 tuple(x % d["p"] for x in d["mc2"])),
                (nm + ".FQ12_MODULUS_COEFFS", tuple(x % d["p"] for x in M.FQ12.FQ12_MODULUS_COEFFS),
                 tuple(x % d["p"] for x in d["mc12"])),
                (nm + ".b", c1.mod(M.b), d["E1"].b),
                (nm + ".b2", c2.mod(M.b2), d["E2"].b),
                (nm + ".b12", c12.mod(M.b12), d["E12"].b),
                (nm + ".G1", nrm(c1, M.G1), d["G1"]),
                (nm + ".G2", nrm(c2, M.G2), d["G2"]),
                (nm + ".G12", nrm(c12, M.G12), model_twist(curve, d["G2"])),
                (nm + ".Z1", nrm(c1, M.Z1), None),
                (nm + ".Z2", nrm(c2, M.Z2), None),
            ]
        for name, got, exp in checks:
            r.ev += 1
            r.dk.add(name)
            if got != exp:
                r.viol("C07:const:" + name, ME + ":replay_const", {"name": name, "curve": curve},
                       exp, got)
    r.sample({"constants": "p, r, moduli, b, b2, b12, G1, G2, G12, Z1, Z2 of 4 modules vs derived"})
    return r


def replay_const(a):
    r = task_full_consts({}, {"pid": "C07", "seed": 0, "tier": "quick"})
    for v in r.viols:
        if v["args"]["name"] == a["name"]:
            return {"expected": v["expected"], "observed": v["observed"]}
    return None


def task_full_twist(a, env):
    """twist == the standard embedding (model_twist), lands on E(Fp12), additive, injective."""
    curve = a["curve"]
    r = R("full-twist:%s" % curve)
    quick = env["tier"] == "quick"
    d = params.curves()[curve]
    E2, E12 = d["E2"], d["E12"]
    dom = point_domain(curve, "E2", env, quick)
    for fam in ("ref", "opt"):
        ref, opt = mods(curve)
        M = ref if fam == "ref" else opt
        nm = M.__name__.split(".")[-1]
        c2, c12 = field_cfg(curve, "E2", fam), field_cfg(curve, "E12", fam)
        lams = scalings(c2, env, curve + ":E2") if fam == "opt" else [None]
        images = {}
        for (lp, Pm) in dom:
            if Pm is None and fam == "opt":
                reps = [tuple(c2.lib(c) for c in (c2.F.one, c2.F.one, c2.F.zero))]
            elif fam == "opt":
                reps = [lib.opt_pt(c2, Pm, l) for l in lams]
            else:
                reps = [lib.ref_pt(c2, Pm)]
            exp = model_twist(curve, Pm)
            assert E12.on_curve(exp)
            for P in reps:
                r.ev += 1
                r.transitions += 1
                got = lib.outcome(M.twist, P)
                if got[0] == "ok":
                    try:
                        got = ("ok", lib.opt_norm(c12, got[1]) if fam == "opt" else lib.ref_norm(c12, got[1]))
                    except Exception as e:  # noqa: BLE001
                        got = ("malformed-result", type(e).__name__)
                if got != ("ok", exp):
                    r.viol("C07:%s:twist:%s" % (nm, "inf" if Pm is None else "pt"),
                           ME + ":replay_twist", {"curve": curve, "fam": fam, "P": _l(Pm)},
                           ("ok", exp), got)
            images[lp] = exp
            r.dk.add((curve, fam, lp))
        # injective on the domain (model images are what the library returned, just checked)
        vals = [v for v in images.values()]
        distinct_in = len({(None if P is None else (tuple(P[0]), tuple(P[1]))) for _, P in dom})
        if len({v for v in vals}) != distinct_in:
            r.viol("C07:%s:twist:injective" % nm, ME + ":replay_twist",
                   {"curve": curve, "fam": fam, "P": None}, distinct_in, len(set(vals)))
        # additive: twist(P + Q) == twist(P) + twist(Q), all pairs, in the library itself
        sub = dom if not quick else dom[:6]
        for (lp, Pm) in sub:
            for (lq, Qm) in sub:
                if fam == "opt":
                    mk = lambda X: (tuple(c2.lib(c) for c in (c2.F.one, c2.F.one, c2.F.zero))  # noqa: E731
                                    if X is None else lib.opt_pt(c2, X, lams[1]))
                else:
                    mk = lambda X: lib.ref_pt(c2, X)  # noqa: E731
                r.ev += 1
                try:
                    lhs = M.twist(M.add(mk(Pm), mk(Qm)))
                    rhs = M.add(M.twist(mk(Pm)), M.twist(mk(Qm)))
                    nrm = (lambda X: lib.opt_norm(c12, X)) if fam == "opt" else (lambda X: lib.ref_norm(c12, X))
                    ok = nrm(lhs) == nrm(rhs) == model_twist(curve, E2.add(Pm, Qm))
                except Exception:
                    ok = False
                if not ok:
                    r.viol("C07:%s:twist:additive" % nm, ME + ":replay_twist_add",
                           {"curve": curve, "fam": fam, "P": _l(Pm), "Q": _l(Qm)},
                           "twist(P+Q) == twist(P)+twist(Q) == model", "differs")
    r.sample({"curve": curve, "points": [l for l, _ in dom], "case": "twist vs standard embedding"})
    return r


def _tup2(v):
    return None if v is None else (tuple(v[0]), tuple(v[1]))


def replay_twist(a):
    curve, fam = a["curve"], a["fam"]
    if a.get("P") is None and "injective" in a.get("note", ""):
        return None
    ref, opt = mods(curve)
    M = ref if fam == "ref" else opt
    c2, c12 = field_cfg(curve, "E2", fam), field_cfg(curve, "E12", fam)
    Pm = _tup2(a.get("P"))
    if fam == "opt":
        P = (tuple(c2.lib(c) for c in (c2.F.one, c2.F.one, c2.F.zero)) if Pm is None
             else lib.opt_pt(c2, Pm, None))
    else:
        P = lib.ref_pt(c2, Pm)
    got = lib.outcome(M.twist, P)
    if got[0] == "ok":
        got = ("ok", lib.opt_norm(c12, got[1]) if fam == "opt" else lib.ref_norm(c12, got[1]))
    exp = ("ok", model_twist(curve, Pm))
    return None if got == exp else {"expected": exp, "observed": got}


def replay_twist_add(a):
    curve, fam = a["curve"], a["fam"]
    ref, opt = mods(curve)
    M = ref if fam == "ref" else opt
    d = params.curves()[curve]
    c2, c12 = field_cfg(curve, "E2", fam), field_cfg(curve, "E12", fam)
    Pm, Qm = _tup2(a.get("P")), _tup2(a.get("Q"))
    if fam == "opt":
        mk = lambda X: (tuple(c2.lib(c) for c in (c2.F.one, c2.F.one, c2.F.zero))  # noqa: E731
                        if X is None else lib.opt_pt(c2, X, c2.F.el(2)))
        nrm = lambda X: lib.opt_norm(c12, X)  # noqa: E731
    else:
        mk = lambda X: lib.ref_pt(c2, X)  # noqa: E731
        nrm = lambda X: lib.ref_norm(c12, X)  # noqa: E731
    try:
        lhs = nrm(M.twist(M.add(mk(Pm), mk(Qm))))
        rhs = nrm(M.add(M.twist(mk(Pm)), M.twist(mk(Qm))))
    except Exception as e:  # noqa: BLE001
        return {"observed": "raise " + type(e).__name__}
    exp = model_twist(curve, d["E2"].add(Pm, Qm))
    return None if lhs == rhs == exp else {"expected": exp, "observed": [lhs, rhs]}


def task_full_bfs(a, env):
    """Breadth-first closure under {+G, double, neg} from O; states = model points; the
    optimized module is fed the raw representatives it produced itself."""
    curve, group, depth = a["curve"], a["group"], a["depth"]
    r = R("full-bfs:%s:%s" % (curve, group))
    d = params.curves()[curve]
    E = d[group]
    G = d["G1"] if group == "E1" else d["G2"]
    ref, opt = mods(curve)
    cr, co = field_cfg(curve, group, "ref"), field_cfg(curve, group, "opt")
    Gr, Go = lib.ref_pt(cr, G), lib.opt_pt(co, G, co.F.el(3))
    Zo = {"E1": opt.Z1, "E2": opt.Z2}[group]
    seen = {None: (None, Zo)}
    frontier = [None]
    for lvl in range(depth):
        nxt = []
        for S in frontier:
            Sr, So = seen[S]
            for op in ("addG", "double", "neg"):
                r.ev += 2
                r.transitions += 1
                if op == "addG":
                    exp = E.add(S, G)
                    gr, go = lib.outcome(ref.add, Sr, Gr), lib.outcome(opt.add, So, Go)
                elif op == "double":
                    exp = E.add(S, S)
                    gr, go = lib.outcome(ref.double, Sr), lib.outcome(opt.double, So)
                else:
                    exp = E.neg(S)
                    gr, go = lib.outcome(ref.neg, Sr), lib.outcome(opt.neg, So)
                okr = gr[0] == "ok" and lib.ref_norm(cr, gr[1]) == exp
                oko = go[0] == "ok" and lib.opt_norm(co, go[1]) == exp
                if not (okr and oko):
                    r.viol("C07:%s:%s:bfs:%s" % (curve, group, op), ME + ":replay_bfs",
                           {"curve": curve, "group": group, "depth": depth}, "model", [okr, oko])
                    continue
                if exp not in seen:
                    seen[exp] = (gr[1], go[1])
                    nxt.append(exp)
        frontier = nxt
    r.states += len(seen)
    r.dn += len(seen)
    r.sample({"curve": curve, "group": group, "depth": depth, "states": len(seen)})
    return r


def replay_bfs(a):
    r = task_full_bfs(a, {"pid": "C07", "seed": 0, "tier": "quick"})
    return None if not r.viols else {"observed": r.viols[0]["observed"]}


def plan(ctx):
    tasks = []
    for curve in PKG:
        for group in GROUPS:
            tasks.append(("full_pairs", {"curve": curve, "group": group}))
            for fam in ("ref", "opt"):
                tasks.append(("full_mul", {"curve": curve, "group": group, "fam": fam}))
        tasks.append(("full_twist", {"curve": curve}))
        for group in ("E1", "E2"):
            tasks.append(("full_bfs", {"curve": curve, "group": group,
                                       "depth": 4 if ctx.quick else 6}))
    tasks.append(("full_consts", {}))
    for curve in ("bn128", "bls12_381"):
        tasks.append(("containers", {"curve": curve}))
    ctx.bounds["full_size"] = {
        "groups": "E(Fp), E'(Fp2), E(Fp12) of bn128 and bls12_381, reference + optimized",
        "points": "O, G, 2G, 3G, -G, (r-2)G, seeded kG, lG, non-subgroup points, G+nonsub",
        "scalars": "0,1,2,3,r-1,r,r+1,2p-r,2^53+-1, seeded 256/400/640-bit",
        "scalings": "1, 2, -1 (or 2i), seeded",
        "bfs_depth": 4 if ctx.quick else 6,
    }
    return tasks

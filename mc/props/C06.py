"""C06 - ECDSA: sign-then-recover returns the signer's key; signatures valid, low-s, deterministic.

I1: the working tree's secp256k1 module re-instantiated (configuration loader) on tiny
prime-order curves with N > P (so that r = x(kG) < N always, as on secp256k1 up to 2^-128):
EVERY private key d in [1, N-1] x every hash of a hash alphabet.  All combinations of nonce
point parity x high/low s x z >= N occur many times.  I2: complete product of the key and hash
alphabets at full size.  Oracle: independent model (mc.model.ecdsa): model nonce (HMAC written
out), model signature, model verification equation, model d*G.
"""
import hashlib

from ..core import R, rng
from ..model import ecdsa
from . import secplib as L

LEVEL = "exploration"
ME = "mc.props.C06"


def _check(S, m, d, h):
    """Returns (None | (class, expected, observed)), case-class tuple."""
    n = m.n
    priv = d.to_bytes(32, "big")
    z = int.from_bytes(h, "big")
    k = ecdsa.nonce(h, priv)
    want = m.sign_with_k(d, z, k)
    if want is None or want[1] % n == 0 or want[2] == 0 or want[1] >= n:
        # degenerate nonce outcome (k = 0 mod N, r = 0 or s = 0; r >= N cannot happen when
        # N > P): standard ECDSA would retry; py_ecc has no retry loop and on secp256k1 the
        # event has probability ~2^-128.  Outside the statement's reachable domain: counted.
        return "degenerate", None
    o = L.call(S.ecdsa_raw_sign, h, priv)
    if o[0] != "ok":
        return "ok", ("sign-raises", want, o)
    sig = o[1]
    if not (isinstance(sig, tuple) and len(sig) == 3 and all(type(x) is int for x in sig)):
        return "ok", ("sign-shape", want, repr(sig)[:100])
    v, r, s = sig
    cls = ("odd" if (want[0] - 27) else "even", "z>=N" if z >= n else "z<N")
    if not (v in (27, 28) and 1 <= r < n and 1 <= s and 2 * s <= n):
        return cls, ("range", "v in {27,28}, 1<=r<N, 1<=s<=N/2", sig)
    Q = m.mul(m.G, d)
    if not m.verify(Q, z, r, s):
        return cls, ("verification-equation", want, sig)
    if sig != want:
        return cls, ("nonce-or-v", want, sig)  # valid but not the deterministic RFC 6979 one / wrong v
    o2 = L.call(S.ecdsa_raw_sign, h, priv)
    if o2 != o:
        return cls, ("nondeterministic", o, o2)
    # history: a refused recovery on this hash first (the previous successful recovery was for
    # another hash), then the honest one
    pre = L.call(S.ecdsa_raw_recover, h, (v, r, 0))
    if pre != ("raise", "ValueError"):
        return cls, ("recover-accepts-s=0", "ValueError", pre)
    rec = L.call(S.ecdsa_raw_recover, h, sig)
    rec_l = L.call(S.ecdsa_raw_recover, h, list(sig))  # the same triple as a list (e.g. after a JSON round trip)
    if rec_l != rec:
        return cls, ("recover-from-list-differs", rec, rec_l)
    pub = L.call(S.privtopub, priv)
    if rec[0] != "ok" or L.to_model(rec[1]) != Q:
        return cls, ("recover", Q, rec)
    if pub[0] != "ok" or L.to_model(pub[1]) != Q:
        return cls, ("privtopub", Q, pub)
    # after this signature was made: the same (v, r) with s = 0 mod N must still be refused
    for s0 in (0, n):
        z0 = L.call(S.ecdsa_raw_recover, h, (v, r, s0))
        if z0 != ("raise", "ValueError"):
            return cls, ("recover-accepts-s=0-after-sign", "ValueError", z0)
    other = L.call(S.ecdsa_raw_recover, h, (55 - v, r, s))
    if other[0] == "ok" and L.to_model(other[1]) == Q:
        return cls, ("other-v-recovers-same-key", "different point or error", other)
    return cls, None


def _hashes_tiny(m, env):
    n = m.n
    rg = rng(env, "tiny-hash-%d" % m.p)
    hs = [z.to_bytes(32, "big") for z in range(0, n + 3)]
    hs += [bytes(rg.getrandbits(8) for _ in range(32)) for _ in range(8)]
    hs += [b"\xff" * 32, b"", b"\x01", bytes(range(33)), bytes(range(64)), b"0123456789abcdef" * 4, b"ff" * 16]
    return hs


def task_tiny(a, env):
    cfg = a["cfg"]
    S, m = L.get(cfg)
    r = R("tiny:every-key")
    hs = _hashes_tiny(m, env)
    combos = {}
    for d in range(a["d_lo"], a["d_hi"]):
        if r.full():
            break
        for h in hs:
            cls, bad = _check(S, m, d, h)
            r.ev += 1
            if cls == "degenerate":
                r.notes["degenerate_excluded"] = r.notes.get("degenerate_excluded", 0) + 1
                continue
            r.dn += 1
            combos[cls] = combos.get(cls, 0) + 1
            if bad:
                r.viol("C06:tiny:%s" % bad[0], ME + ":replay",
                       {"cfg": cfg, "d": hex(d), "h": h.hex()}, bad[1], bad[2])
    r.notes["parity_x_zclass"] = {"%s,%s" % k: v for k, v in combos.items() if isinstance(k, tuple)}
    if a["d_lo"] == 1:
        r.sample({"cfg": cfg, "d": "1..%d" % (m.n - 1), "hashes": len(hs),
                  "first_hashes": [h.hex() for h in hs[:2]]})
    return r


def _full_domain(m, env, thorough):
    rg = rng(env, "full")
    n = m.n
    ds = [1, 2, 3, n - 2, n - 1, 2**128, 2**255, (n - 1) // 2] + [rg.randrange(1, n) for _ in range(4)]
    hs = [b"\x00" * 32, b"\xff" * 32, (n - 1).to_bytes(32, "big"), n.to_bytes(32, "big"),
          (n + 1).to_bytes(32, "big"), m.p.to_bytes(32, "big"), b"\x00" * 31 + b"\x01"]
    hs += [bytes(rg.getrandbits(8) for _ in range(32)) for _ in range(4)]
    hs += [b"", b"\x07", bytes(range(31)), bytes(range(33)), bytes(range(64))]
    # digests that are themselves ASCII text (hex digits / decimal digits), 32 and 64 characters
    hs += [b"0123456789abcdef" * 4, hashlib.sha256(b"x").hexdigest().encode(), b"00000000000000000000000000000001", b"12345678" * 4]
    if thorough:
        ds += [2**k for k in range(1, 255, 6)] + [rg.randrange(1, n) for _ in range(20)]
        hs += [bytes(rg.getrandbits(8) for _ in range(32)) for _ in range(24)]
    return ds, hs


def task_full(a, env):
    S, m = L.full()
    r = R("full:alphabet-product")
    ds, hs = _full_domain(m, env, env["tier"] == "thorough")
    for d in ds[a["lo"]::a["step"]]:
        for h in hs:
            cls, bad = _check(S, m, d, h)
            r.ev += 1
            if cls == "degenerate":
                r.notes["degenerate_excluded"] = r.notes.get("degenerate_excluded", 0) + 1
                continue
            r.dk.add((d, h))
            if bad:
                r.viol("C06:full:%s" % bad[0], ME + ":replay",
                       {"cfg": "full", "d": hex(d), "h": h.hex()}, bad[1], bad[2])
    if a["lo"] == 0:
        # (key, hash) pairs whose nonce starts with >= 24 zero bits (model search, golden file, re-validated here)
        import json
        import os
        gp = os.path.join(os.path.dirname(os.path.dirname(os.path.dirname(os.path.abspath(__file__)))), "golden", "short_nonces.json")
        for pr in json.load(open(gp))["pairs"]:
            priv, h = bytes.fromhex(pr["priv"]), bytes.fromhex(pr["hash"])
            assert ecdsa.nonce(h, priv) >> 232 == 0  # the model confirms the golden entry
            d = int.from_bytes(priv, "big")
            cls, bad = _check(S, m, d, h)
            r.ev += 1
            r.dk.add((d, h))
            if bad:
                r.viol("C06:full:%s:short-nonce" % bad[0], ME + ":replay", {"cfg": "full", "d": hex(d), "h": h.hex()}, bad[1], bad[2])
        r.sample({"d": hex(ds[0]), "hash": hs[2].hex()})
    return r


def mut_case(cfg, d, hs):
    """one history with bytearray arguments overwritten in place between calls: every signature must
    be the model signature of the bytes present at the time of the call"""
    S, m = L.get(cfg)
    out = []
    hb = bytearray(hs[0])
    kb = bytearray(d.to_bytes(32, "big"))
    for step, h in enumerate(hs):
        hb[:] = h
        z = int.from_bytes(bytes(hb), "big")
        want = m.sign_with_k(d, z, ecdsa.nonce(bytes(hb), bytes(kb)))
        if want is None or want[1] % m.n == 0 or want[2] == 0 or want[1] >= m.n:
            continue
        got = L.call(S.ecdsa_raw_sign, hb, kb)
        out.append((step, ("ok", want), got))
    return out


def task_mutated(a, env):
    r = R("bytearray-arguments-overwritten-between-calls")
    for cfg in a["cfgs"]:
        S, m = L.get(cfg)
        for d in a["ds"]:
            if not 1 <= d < m.n:
                continue
            hs = [bytes([i + 1]) * 32 for i in range(3)] + [b"\x01" * 32]
            for step, exp, got in mut_case(cfg, d, [h.hex() and h for h in hs]):
                r.ev += 1
                r.dk.add((str(cfg), d, step))
                if exp != got:
                    r.viol("C06:%s:stale-after-in-place-mutation" % ("full" if cfg == "full" else "tiny"), ME + ":replay_mut",
                           {"cfg": cfg, "d": hex(d)}, exp, got, note="call %d" % step)
                    break
    r.sample({"sequence": "sign(bytearray h, bytearray key); h[:] = other; sign again; ..."})
    return r


def sweep_case(cfg, n):
    """anchor (hash, key) pairs signed again after n signatures on pairwise distinct other inputs"""
    from .. import lib as _lib
    S, m = L.get(cfg)

    def call(x):
        o = L.call(S.ecdsa_raw_sign, x[0], x[1])
        return ("ok", tuple(o[1])) if o[0] == "ok" and isinstance(o[1], tuple) else o

    def expect(x):
        d, z = int.from_bytes(x[1], "big"), int.from_bytes(x[0], "big")
        return ("ok", m.sign_with_k(d, z, ecdsa.nonce(x[0], x[1])))

    def ok(x):
        w = expect(x)[1]
        return w is not None and w[2] != 0 and w[1] % m.n != 0 and w[1] < m.n

    anchors = [x for x in ((bytes([i + 1]) * 32, (1 + i).to_bytes(32, "big")) for i in range(6)) if ok(x)][:4]
    distinct = (x for x in (((j + 1000).to_bytes(32, "big"), (2 + j % (m.n - 2)).to_bytes(32, "big")) for j in range(4 * n)) if ok(x))
    return _lib.sweep(call, anchors, distinct, n, expect)


def task_sweep(a, env):
    r = R("anchors-again-after-n-distinct-signatures")
    for cfg, n in a["cases"]:
        bad = sweep_case(cfg, n)
        r.ev += n + 4 * 20
        r.dk.add(str(cfg))
        if bad:
            r.viol("C06:%s:stale-after-many-distinct" % ("full" if cfg == "full" else "tiny"), ME + ":replay_sweep",
                   {"cfg": cfg, "n": bad[0]}, bad[2], bad[3], note="anchor %d after %d distinct signatures" % (bad[1], bad[0]))
    r.sample({"history": "sign(a0..a3); sign(d1); sign(a0..a3); sign(d2); ..."})
    return r


def replay_sweep(a):
    bad = sweep_case(a["cfg"], a["n"])
    return None if not bad else {"after": bad[0], "anchor": bad[1], "expected": bad[2], "observed": bad[3]}


def replay_mut(a):
    hs = [bytes([i + 1]) * 32 for i in range(3)] + [b"\x01" * 32]
    for step, exp, got in mut_case(a["cfg"], int(a["d"], 16), hs):
        if exp != got:
            return {"call": step, "expected": exp, "observed": got}
    return None


def replay(a):
    S, m = L.get(a["cfg"])
    cls, bad = _check(S, m, int(a["d"], 16), bytes.fromhex(a["h"]))
    return None if not bad else {"class": bad[0], "expected": bad[1], "observed": bad[2]}


def run(ctx):
    ctx.rule = (
        "tiny curves (N > P): every key d in [1, N-1] x {all z in [0, N+2] as 32-byte hashes, 8 "
        "seeded, 0xff..ff, and 4 other lengths}; full size: complete product of key x hash "
        "alphabets; a case is one (d, hash); degenerate nonce outcomes (k=0 mod N, r=0, s=0) are "
        "counted under notes.degenerate_excluded and are not in distinct_nontrivial"
    )
    ctx.assumptions = [
        "nonce = HMAC-DRBG over key bytes || hash bytes exactly as the statement says (no bits2octets, "
        "no retry loop: DESIGN 7 #5)",
        "tiny curves use N > P so that x(kG) < N as on secp256k1 (where P > N by < 2^129)",
    ]
    cur = [c for c in ecdsa.TINY + ecdsa.TINY_MORE if c[2] > c[0]]
    cur = cur[:6] if ctx.quick else cur
    ctx.bounds = {"tiny_curves_P_B_N": [list(c) for c in cur], "keys": "all of [1, N-1]",
                  "full_keys": 12 if ctx.quick else 75, "full_hashes": 16 if ctx.quick else 40}
    tasks = []
    for c in reversed(cur):
        N = c[2]
        chunk = max(8, N // 6)
        for lo in range(1, N, chunk):
            tasks.append(("tiny", {"cfg": list(c), "d_lo": lo, "d_hi": min(N, lo + chunk)}))
    step = 12 if ctx.quick else 25
    tasks += [("full", {"lo": i, "step": step}) for i in range(step)]
    tasks.append(("mutated", {"cfgs": ["full", list(cur[0]), list(cur[2])], "ds": [1, 5, 12345 % 11 + 2]}))
    tasks.append(("sweep", {"cases": [["full", 100 if ctx.quick else 1100]]}))
    tasks.append(("sweep", {"cases": [[list(cur[0]), 1100 if ctx.quick else 5000], [list(cur[2]), 300]]}))
    ctx.pmap(ME, tasks)

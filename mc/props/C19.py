"""C19 - ECDSA recovery returns the algebraically determined key or refuses.

I1: the working tree's ecdsa_raw_recover body (configuration loader) on tiny prime-order curves:
EVERY (v, r, s, z) with v in a recovery-id alphabet, r in [0, P), s in [0, 2N], z in a hash
alphabet.  The model answers in O(1) from a discrete-log table of the whole (cyclic) group.
I2: the complete alphabet product at full size.
"""
from ..core import R, rng
from ..model import ecdsa
from . import secplib as L

LEVEL = "model_checking"
ME = "mc.props.C19"

VS = [27, 28, 0, 1, 26, 29, 35, 36, -1, 2**256 + 27]


def _expected(m, tab, v, r, s, z):
    """('raise',) | ('ok', point-or-None) by the recovery algebra; tab = (pts, idx) of the
    cyclic group for O(1) answers on tiny curves, or None (full size)."""
    n = m.n
    if v not in (27, 28) or r % n == 0 or s % n == 0:
        return ("raise",)
    Rp = m.lift_x(r, v == 28)
    if Rp is None:
        return ("raise",)
    if tab is None:
        return m.recover(v, r, s, z)
    pts, idx = tab
    t = (s * idx[Rp] - z) % n
    return ("ok", pts[t * pow(r % n, -1, n) % n])


_FORM = {"n": 0}


def _observe(S, h, v, r, s):
    try:
        # the triple as a tuple, every third time as a list
        _FORM["n"] += 1
        Q = S.ecdsa_raw_recover(h, [v, r, s] if _FORM["n"] % 3 == 0 else (v, r, s))
    except ValueError:
        return ("raise",)
    except Exception as e:  # noqa: BLE001 - any other exception type is itself a violation
        return ("raise-other", type(e).__name__)
    return ("ok", L.to_model(Q))


def _cls(exp, got):
    if exp[0] == "raise":
        return "must-refuse:" + ("returned-point" if got[0] == "ok" else got[1])
    if got[0] != "ok":
        return "must-return:" + ("ValueError" if got[0] == "raise" else got[1])
    return "wrong-point"


def _table(m):
    pts = [None]
    P = None
    for _ in range(m.n - 1):
        P = m.add(P, m.G)
        pts.append(P)
    assert m.add(P, m.G) is None
    return pts, {P: i for i, P in enumerate(pts)}


def _zs(m):
    n = m.n
    return sorted({0, 1, 5, n - 1, n, n + 1, 2 * n + 3})


def task_tiny(a, env):
    cfg, v = a["cfg"], a["v"]
    S, m = L.get(cfg)
    r_ = R("tiny:every-(v,r,s,z)")
    tab = _table(m)
    pts = tab[0]
    zs = [(z, z.to_bytes(32, "big")) for z in _zs(m)]
    zs.append((2**256 - 1, b"\xff" * 32))
    srange = range(0, 2 * m.n + 1)
    selfchecked = 0
    for r in range(a["r_lo"], a["r_hi"]):
        if r_.full():
            break
        for s in srange:
            for z, h in zs:
                exp = _expected(m, tab, v, r, s, z)
                got = _observe(S, h, v, r, s)
                if got != exp:
                    r_.viol("C19:tiny:%s" % _cls(exp, got), ME + ":replay",
                            {"cfg": cfg, "v": v, "r": hex(r), "s": hex(s), "h": h.hex()}, exp, got)
                elif exp[0] == "ok" and s == 3 and exp[1] is not None and r < m.n:
                    # model self-consistency (statement: "for such a Q the signature verifies")
                    assert m.verify(exp[1], z, r, s % m.n), (cfg, v, r, s, z)
                    selfchecked += 1
        k = "r_is_x_coordinate" if m.lift_x(r, 0) or m.lift_x(r, 1) else "r_no_point"
        r_.notes[k] = r_.notes.get(k, 0) + 1
    cnt = (a["r_hi"] - a["r_lo"]) * len(srange) * len(zs)
    r_.ev += cnt
    r_.dn += cnt
    r_.transitions += cnt
    r_.states += (a["r_hi"] - a["r_lo"])
    r_.notes["model_verify_selfchecks"] = selfchecked
    if a["r_lo"] == 0 and v == 27:
        r_.sample({"cfg": cfg, "v": v, "r": "0..%d" % (m.p - 1), "s": "0..%d" % (2 * m.n),
                   "z": [z for z, _ in zs[:-1]] + ["2^256-1"]})
    return r_


def _full_alphabet(m, env, thorough):
    rg = rng(env, "full")
    n, p = m.n, m.p
    G2 = m.mul(m.G, 2)
    k = rg.randrange(1, n)
    kG = m.mul(m.G, k)
    rs = [0, 1, 2, 3, n - 1, n, n + 1, p - 1, p - 2, m.G[0], G2[0], kG[0]]
    # x with no curve point (3 of them), x >= n on the curve (model search upward from n)
    x, no_pt = 5, []
    while len(no_pt) < 3:
        if m.lift_x(x, 0) is None:
            no_pt.append(x)
        x += 1
    x = n
    while m.lift_x(x, 0) is None:
        x += 1
    rs += no_pt + [x]
    # an honest signature's (r, s) and its high-s twin
    d = rg.randrange(1, n)
    hz = bytes(rg.getrandbits(8) for _ in range(32))
    z = int.from_bytes(hz, "big")
    sig = m.sign_with_k(d, z, ecdsa.nonce(hz, d.to_bytes(32, "big")))
    ss = [0, 1, 2, (n - 1) // 2, (n + 1) // 2, n - 1, n, n + 1, 2 * n + 3, rg.randrange(1, n),
          sig[2], n - sig[2], 2**256 + 5]
    rs.append(sig[1])
    hs = [b"\x00" * 32, b"\xff" * 32, n.to_bytes(32, "big"), (n - 1).to_bytes(32, "big"), hz, b"",
          b"\x01", bytes(range(64)), b"0123456789abcdef" * 4, b"ff" * 16]
    if thorough:
        for _ in range(6):
            rs.append(m.mul(m.G, rg.randrange(1, n))[0])
            ss.append(rg.randrange(1, n))
        hs += [bytes(rg.getrandbits(8) for _ in range(32)) for _ in range(4)] + [b"\x80" + b"\x00" * 31]
    return rs, ss, hs


def task_full(a, env):
    S, m = L.full()
    r_ = R("full:alphabet-product")
    rs, ss, hs = _full_alphabet(m, env, env["tier"] == "thorough")
    v = a["v"]
    rs = rs[a["lo"]::a["step"]]
    for r in rs:
        for s in ss:
            for h in hs:
                z = int.from_bytes(h, "big")
                exp = _expected(m, None, v, r, s, z)
                got = _observe(S, h, v, r, s)
                r_.ev += 1
                r_.dk.add((v, r, s, h))
                if got != exp:
                    r_.viol("C19:full:%s" % _cls(exp, got), ME + ":replay",
                            {"cfg": "full", "v": v, "r": hex(r), "s": hex(s), "h": h.hex()}, exp, got)
                elif exp[0] == "ok" and exp[1] is not None and r < m.n and s == ss[1]:
                    assert m.verify(exp[1], z, r, s % m.n)
                    r_.notes["model_verify_selfchecks"] = r_.notes.get("model_verify_selfchecks", 0) + 1
    r_.transitions = r_.ev
    if a["lo"] == 0 and v == 27:
        r_.sample({"v": v, "r": hex(rs[-1]), "s": hex(ss[3]), "hash": hs[2].hex()})
    return r_


def aftersign_case(cfg, d, hhex):
    """history: ecdsa_raw_sign first, then recovery attempts that reuse its (v, r): s = 0 mod N and
    the other parity must be handled exactly as without the earlier call"""
    S, m = L.get(cfg)
    h = bytes.fromhex(hhex)
    o = L.call(S.ecdsa_raw_sign, h, d.to_bytes(32, "big"))
    out = []
    if o[0] != "ok":
        return out
    v, r, s = o[1]
    z = int.from_bytes(h, "big")
    M61 = 2 ** 61 - 1  # ints that differ by a multiple of it have equal hash() in CPython
    zc = (z + M61) if z + M61 < 2 ** (8 * len(h)) else (z - M61)
    hc = zc.to_bytes(len(h), "big") if len(h) and zc >= 0 else h
    text = h.decode("latin-1")  # the digest as a text string, one character per byte
    texts = ["0x" + h.hex()[:62], "0X" + h.hex()[:30], h.hex(), "0x1f", "0b1011", "1_000", " 12", "12345678901234567890123456789012"]
    for (v2, r2, s2, h2) in ((v, r, 0, h), (v, r, m.n, h), (v, r, 2 * m.n, b"\x01" * 32), (55 - v, r, s, h), (v, r, s, h),
                             (v, r, s + m.n, h),
                             # arguments whose hash() collides with the honest call just made
                             (v, r, s + M61, h), (v, r, s, hc), (v, r + M61, s, h), (v + M61, r, s, h),
                             (v, r, s + M61 * m.n, h), (v, r, M61 * m.n, h), (v, r, s, h),
                             (v, r, s, text), (v, r, s, h)) + tuple((v, r, s, t) for t in texts) + ((v, r, s, h),) + \
            tuple((vv, r, s, h) for vv in list(range(-8, 70)) + [255, 256, 27 + 256, 28 + 2 ** 32, 27.0, True] if vv not in (27, 28)):
        z2 = int.from_bytes(h2.encode("latin-1") if isinstance(h2, str) else h2, "big")
        exp = _expected(m, None, v2, r2, s2, z2)
        got = _observe(S, h2, v2, r2, s2)
        if exp == ("undefined",):  # r >= P (tiny curves): the call is made (history), its outcome is not judged
            continue
        out.append(((v2, r2 - r, s2, h2 if isinstance(h2, str) else h2.hex()[:16]), exp, got))
    return out


def task_aftersign(a, env):
    r_ = R("recover-after-sign-histories")
    for cfg in a["cfgs"]:
        S, m = L.get(cfg)
        for d in a["ds"]:
            if not 1 <= d < m.n:
                continue
            for hhex in a["hs"]:
                for (lbl, exp, got) in aftersign_case(cfg, d, hhex):
                    r_.ev += 1
                    r_.transitions += 1
                    r_.dk.add((str(cfg), d, hhex, lbl))
                    if exp != got:
                        r_.viol("C19:%s:after-sign:%s" % ("full" if cfg == "full" else "tiny", _cls(exp, got)), ME + ":replay_aftersign",
                                {"cfg": cfg, "d": hex(d), "h": hhex}, exp, got, note=str(lbl))
                        break
    r_.states = len(a["cfgs"])
    r_.sample({"history": "sign(h, d) -> recover(h, (v, r, 0)), (v, r, N), other parity, honest s, s + N"})
    return r_


def sweep_case(cfg, n):
    """anchors (valid signatures made by the model) recovered again after n recoveries of pairwise
    distinct other signatures / hashes"""
    from .. import lib as _lib
    S, m = L.get(cfg)

    def mk(d, hb):
        z = int.from_bytes(hb, "big")
        k = ecdsa.nonce(hb, d.to_bytes(32, "big"))
        sg = m.sign_with_k(d, z, k)
        return None if sg is None or sg[2] == 0 or sg[1] % m.n == 0 or sg[1] >= m.n else (hb, sg)

    def call(x):
        return _observe(S, x[0], *x[1])

    def expect(x):
        return _expected(m, None, x[1][0], x[1][1], x[1][2], int.from_bytes(x[0], "big"))

    anchors = [t for t in (mk(1 + i, bytes([i + 1]) * 32) for i in range(6)) if t][:4]
    distinct = (t for t in (mk(2 + j % (m.n - 2), (j + 1000).to_bytes(32, "big")) for j in range(4 * n)) if t)
    return _lib.sweep(call, anchors, distinct, n, expect)


def task_sweep(a, env):
    r_ = R("anchors-again-after-n-distinct-recoveries")
    for cfg in a["cfgs"]:
        n = a["n"] if cfg != "full" else a["n_full"]
        bad = sweep_case(cfg, n)
        r_.ev += n + 4 * 20
        r_.dk.add(str(cfg))
        if bad:
            r_.viol("C19:%s:stale-after-many-distinct" % ("full" if cfg == "full" else "tiny"), ME + ":replay_sweep",
                    {"cfg": cfg, "n": bad[0]}, bad[2], bad[3], note="anchor %d after %d distinct recoveries" % (bad[1], bad[0]))
    r_.transitions = r_.ev
    r_.sample({"history": "recover(a0..a3); recover(d1); recover(a0..a3); recover(d2); ..."})
    return r_


def replay_sweep(a):
    bad = sweep_case(a["cfg"], a["n"])
    return None if not bad else {"after": bad[0], "anchor": bad[1], "expected": bad[2], "observed": bad[3]}


def replay_aftersign(a):
    for (lbl, exp, got) in aftersign_case(a["cfg"], int(a["d"], 16), a["h"]):
        if exp != got:
            return {"call": lbl, "expected": exp, "observed": got}
    return None


def replay(a):
    S, m = L.get(a["cfg"])
    v = a["v"]
    r, s, h = int(a["r"], 16), int(a["s"], 16), bytes.fromhex(a["h"])
    exp = _expected(m, None, v, r, s, int.from_bytes(h, "big"))
    got = _observe(S, h, v, r, s)
    return None if got == exp else {"expected": exp, "observed": got}


def run(ctx):
    ctx.rule = (
        "every tuple (v, r, s, hash) of the stated ranges / alphabets is one case, all distinct; "
        "non-trivial classes counted: per (curve, v, r) whether r is an x-coordinate"
    )
    ctx.assumptions = [
        "identity result is encoded as (0, 0) (DESIGN 7 #10)",
        "the statement's domain is 0 <= r < P, s >= 0; v arbitrary int",
    ]
    curves = [c for c in ecdsa.TINY if c[0] <= (103 if ctx.quick else 10**9)]
    if not ctx.quick:
        curves = curves + ecdsa.TINY_MORE[:2]
    vs = VS if not ctx.quick else VS[:8]
    ctx.bounds = {"tiny_curves_P_B_N": [list(c) for c in curves], "v_alphabet": [str(v) for v in vs],
                  "r": "[0, P)", "s": "[0, 2N]", "z": "{0,1,5,N-1,N,N+1,2N+3,2^256-1}"}
    tasks = []
    for c in reversed(curves):
        P = c[0]
        chunk = max(4, P // (8 if ctx.quick else 16))
        for v in vs:
            if v in (27, 28):
                for lo in range(0, P, chunk):
                    tasks.append(("tiny", {"cfg": list(c), "v": v, "r_lo": lo, "r_hi": min(P, lo + chunk)}))
            else:
                tasks.append(("tiny", {"cfg": list(c), "v": v, "r_lo": 0, "r_hi": P}))
    for v in vs:
        step = 8 if v in (27, 28) else 1
        for lo in range(step):
            tasks.append(("full", {"v": v, "lo": lo, "step": step}))
    tasks.append(("aftersign", {"cfgs": ["full", list(curves[0]), list(curves[2])], "ds": [1, 5, 9],
                                "hs": [("%02x" % b) * 32 for b in (1, 0x35, 0xff)]}))
    tasks.append(("sweep", {"cfgs": ["full"], "n": 0, "n_full": 150 if ctx.quick else 1100}))
    tasks.append(("sweep", {"cfgs": [list(curves[0]), list(curves[2])], "n": 1100 if ctx.quick else 5000, "n_full": 0}))
    ctx.pmap(ME, tasks)

"""C13 - projective / Jacobian formulas equal the affine law on every control path.

Complete grids GF(p)^6 / GF(p)^3 (all coordinate triples, on or off any curve) are pushed
through the real add / double / neg / eq / is_on_curve / linefunc bodies of the optimized
modules (called as they are on small-field instances) and through secp256k1's
jacobian_add / jacobian_double (configuration loader).  A polynomial identity whose degree in
each variable is < p and that holds on all of GF(p)^n holds identically mod p, so the grid
is a complete argument per control path (DESIGN 6/C13) - decided by enumeration.
"""
import importlib
import itertools

from ..core import R
from .. import lib, cfgload
from ..model import zp

LEVEL = "model_checking"
ME = "mc.props.C13"

CURVE = {"optimized_bn128": "py_ecc.optimized_bn128.optimized_curve",
         "optimized_bls12_381": "py_ecc.optimized_bls12_381.optimized_curve"}
PAIR = {"optimized_bn128": "py_ecc.optimized_bn128.optimized_pairing",
        "optimized_bls12_381": "py_ecc.optimized_bls12_381.optimized_pairing"}


# ------------------------------------------------------------------ affine model on ints
def aff(p, inv, T):
    x, y, z = T
    if z % p == 0:
        return None
    iz = inv[z % p]
    return (x * iz % p, y * iz % p)


def aff_add(p, inv, A, B):
    """affine chord-and-tangent law for a = 0, *not* using the curve equation"""
    if A is None:
        return B
    if B is None:
        return A
    x1, y1 = A
    x2, y2 = B
    if x1 == x2:
        if y1 != y2 or y1 == 0:
            return None  # vertical line (opposite points, or a 2-torsion tangent)
        m = 3 * x1 * x1 * inv[2 * y1 % p] % p
    else:
        m = (y2 - y1) * inv[(x2 - x1) % p] % p
    x3 = (m * m - x1 - x2) % p
    return (x3, (m * (x1 - x3) - y1) % p)


def inv_table(p):
    return [0] + [pow(a, p - 2, p) for a in range(1, p)]


def path_of(p, inv, A, B):
    if A is None or B is None:
        return "identity-operand"
    if A[0] != B[0]:
        return "generic"
    if A[1] == B[1] and A[1] != 0:
        return "doubling-via-add"
    if A[1] == B[1]:
        return "two-torsion"
    return "inverse-points"


# ------------------------------------------------------------------ optimized add: full grid
def task_add_grid(a, env):
    """add(P1, P2) for all (x1,y1,z1) in GF(p)^3 restricted to x1 == a['x1'] (task split)
    and all (x2,y2,z2) in GF(p)^3 - every control path of add."""
    p, mod = a["p"], a["mod"]
    r = R("add-grid:%s" % mod)
    M = importlib.import_module(CURVE[mod])
    cls = lib.fq_class("opt", p)
    E = [cls(i) for i in range(p)]
    inv = inv_table(p)
    add = M.add
    paths = {}
    rng_p = range(p)
    x1 = a["x1"]
    for y1 in rng_p:
        for z1 in rng_p:
            P1 = (E[x1], E[y1], E[z1])
            A = aff(p, inv, (x1, y1, z1))
            for x2 in rng_p:
                for y2 in rng_p:
                    for z2 in rng_p:
                        B = aff(p, inv, (x2, y2, z2))
                        exp = aff_add(p, inv, A, B)
                        try:
                            X, Y, Z = add(P1, (E[x2], E[y2], E[z2]))
                            zz = Z.n
                            if zz == 0:
                                got = None
                            else:
                                iz = inv[zz]
                                got = (X.n * iz % p, Y.n * iz % p)
                            ok = got == exp
                        except Exception as e:  # noqa: BLE001
                            ok = False
                            got = "raise " + type(e).__name__
                        if not ok:
                            pth = path_of(p, inv, A, B)
                            r.viol("C13:%s:add:%s" % (mod, pth), ME + ":replay_add",
                                   {"mod": mod, "p": p, "P1": [x1, y1, z1], "P2": [x2, y2, z2]},
                                   exp, got)
            # path statistics (cheap, per P1 only for the second operand = P1 scaled)
    n = p ** 5
    r.ev += n
    r.transitions += n
    r.dn += n
    r.states += p * p
    if x1 == 1:
        r.sample({"mod": mod, "p": p, "case": "add((1,y1,z1),(x2,y2,z2)) for all y1,z1,x2,y2,z2 in GF(%d)" % p})
    return r


def replay_add(a):
    p, mod = a["p"], a["mod"]
    M = importlib.import_module(CURVE[mod])
    cls = lib.fq_class("opt", p)
    inv = inv_table(p)
    A, B = aff(p, inv, a["P1"]), aff(p, inv, a["P2"])
    exp = aff_add(p, inv, A, B)
    try:
        X, Y, Z = M.add(tuple(cls(c) for c in a["P1"]), tuple(cls(c) for c in a["P2"]))
        got = aff(p, inv, (X.n, Y.n, Z.n))
        got = None if got is None else list(got)
    except Exception as e:  # noqa: BLE001
        got = "raise " + type(e).__name__
    exp = None if exp is None else list(exp)
    return None if got == exp else {"expected": exp, "observed": got, "path": path_of(p, inv, A, B)}


# ------------------------------------------------------------------ unary ops, eq, is_on_curve
def task_unary_grid(a, env):
    p, mod = a["p"], a["mod"]
    r = R("unary-grid:%s" % mod)
    M = importlib.import_module(CURVE[mod])
    cls = lib.fq_class("opt", p)
    E = [cls(i) for i in range(p)]
    inv = inv_table(p)
    for x in range(p):
        for y in range(p):
            for z in range(p):
                P = (E[x], E[y], E[z])
                A = aff(p, inv, (x, y, z))
                cases = [("double", aff_add(p, inv, A, A)),
                         ("neg", None if A is None else (A[0], (-A[1]) % p)),
                         ("is_inf", A is None)]
                for op, exp in cases:
                    r.ev += 1
                    r.transitions += 1
                    try:
                        res = getattr(M, op)(P)
                        got = res if op == "is_inf" else aff(p, inv, tuple(c.n for c in res))
                    except Exception as e:  # noqa: BLE001
                        got = "raise " + type(e).__name__
                    if got != exp or (op == "is_inf" and got is not True and got is not False):
                        r.viol("C13:%s:%s:%s" % (mod, op, "inf" if A is None else
                                                 ("y0" if A[1] == 0 else "pt")),
                               ME + ":replay_unary", {"mod": mod, "p": p, "op": op, "P": [x, y, z]},
                               exp, got)
                # is_on_curve for every b
                for b in range(p):
                    r.ev += 1
                    exp = True if A is None else (A[1] * A[1] - A[0] ** 3 - b) % p == 0
                    try:
                        got = M.is_on_curve(P, E[b])
                    except Exception as e:  # noqa: BLE001
                        got = "raise " + type(e).__name__
                    if got is not exp:
                        r.viol("C13:%s:is_on_curve:%s" % (mod, "inf" if A is None else "pt"),
                               ME + ":replay_unary",
                               {"mod": mod, "p": p, "op": "is_on_curve", "P": [x, y, z], "b": b},
                               exp, got)
    r.dn += p ** 3 * (3 + p)
    r.states += p ** 3
    r.sample({"mod": mod, "p": p, "case": "double/neg/is_inf/is_on_curve(all b) on all of GF(%d)^3" % p})
    return r


def replay_unary(a):
    p, mod, op = a["p"], a["mod"], a["op"]
    M = importlib.import_module(CURVE[mod])
    cls = lib.fq_class("opt", p)
    inv = inv_table(p)
    P = tuple(cls(c) for c in a["P"])
    A = aff(p, inv, a["P"])
    try:
        if op == "is_on_curve":
            exp = True if A is None else (A[1] * A[1] - A[0] ** 3 - a["b"]) % p == 0
            got = M.is_on_curve(P, cls(a["b"]))
        elif op == "is_inf":
            exp, got = A is None, M.is_inf(P)
        else:
            exp = aff_add(p, inv, A, A) if op == "double" else (None if A is None else (A[0], (-A[1]) % p))
            got = aff(p, inv, tuple(c.n for c in getattr(M, op)(P)))
    except Exception as e:  # noqa: BLE001
        got = "raise " + type(e).__name__
    if got == exp and (op not in ("is_inf", "is_on_curve") or got is exp):
        return None
    return {"expected": exp, "observed": got}


def task_eq_grid(a, env):
    """eq(A, B) for all pairs of triples with A's x fixed (task split)."""
    p, mod, x1 = a["p"], a["mod"], a["x1"]
    r = R("eq-grid:%s" % mod)
    M = importlib.import_module(CURVE[mod])
    cls = lib.fq_class("opt", p)
    E = [cls(i) for i in range(p)]
    inv = inv_table(p)
    eq = M.eq
    triples = list(itertools.product(range(p), repeat=3))
    affs = {t: aff(p, inv, t) for t in triples}
    for y1 in range(p):
        for z1 in range(p):
            t1 = (x1, y1, z1)
            P1 = (E[x1], E[y1], E[z1])
            A = affs[t1]
            for t2 in triples:
                exp = A == affs[t2]
                try:
                    got = eq(P1, (E[t2[0]], E[t2[1]], E[t2[2]]))
                except Exception as e:  # noqa: BLE001
                    got = "raise " + type(e).__name__
                if got is not exp:
                    shape = ("inf" if A is None else "pt") + "," + ("inf" if affs[t2] is None else "pt")
                    zt = ":zero-triple" if t1 == (0, 0, 0) or t2 == (0, 0, 0) else ""
                    r.viol("C13:%s:eq:%s%s" % (mod, shape, zt), ME + ":replay_eq",
                           {"mod": mod, "p": p, "P1": list(t1), "P2": list(t2)}, exp, got)
    n = p * p * len(triples)
    r.ev += n
    r.transitions += n
    r.dn += n
    if x1 == 0:
        r.sample({"mod": mod, "p": p, "case": "eq(A,B) for all pairs of triples over GF(%d)" % p})
    return r


def replay_eq(a):
    p, mod = a["p"], a["mod"]
    M = importlib.import_module(CURVE[mod])
    cls = lib.fq_class("opt", p)
    inv = inv_table(p)
    exp = aff(p, inv, a["P1"]) == aff(p, inv, a["P2"])
    try:
        got = M.eq(tuple(cls(c) for c in a["P1"]), tuple(cls(c) for c in a["P2"]))
    except Exception as e:  # noqa: BLE001
        got = "raise " + type(e).__name__
    return None if got is exp else {"expected": exp, "observed": got}


# ------------------------------------------------------------------ line functions
def aff_line(p, inv, A, B, T):
    """the reference modules' affine line function (definition), None where it is not
    defined (tangent at a point with y = 0)"""
    x1, y1 = A
    x2, y2 = B
    xt, yt = T
    if x1 != x2:
        m = (y2 - y1) * inv[(x2 - x1) % p] % p
    elif y1 == y2:
        if y1 == 0:
            return "undefined"
        m = 3 * x1 * x1 * inv[2 * y1 % p] % p
    else:
        return (xt - x1) % p
    return (m * (xt - x1) - (yt - y1)) % p


def task_line_grid(a, env):
    """projective linefunc(P1, P2, T): numerator/denominator == affine line function,
    all P1 (x fixed per task), P2, T in GF(p)^3 with non-zero z."""
    p, mod, x1 = a["p"], a["mod"], a["x1"]
    r = R("linefunc-grid:%s" % mod)
    PM = importlib.import_module(PAIR[mod])
    lf = getattr(PM, "linefunc", None)
    if lf is None:
        r.skipped.append(mod + ".linefunc")
        return r
    cls = lib.fq_class("opt", p)
    E = [cls(i) for i in range(p)]
    inv = inv_table(p)
    tz = a.get("tz") or list(range(1, p))
    finite = [(x, y, z) for x in range(p) for y in range(p) for z in range(1, p)]
    Ts = [(x, y, z) for x in range(p) for y in range(p) for z in tz]
    LT = [((E[x], E[y], E[z]), aff(p, inv, (x, y, z))) for (x, y, z) in Ts]
    br = {"chord": 0, "tangent": 0, "vertical": 0, "undefined": 0}
    for y1 in range(p):
        for z1 in range(1, p):
            P1 = (E[x1], E[y1], E[z1])
            A = aff(p, inv, (x1, y1, z1))
            for t2 in finite:
                P2 = (E[t2[0]], E[t2[1]], E[t2[2]])
                B = aff(p, inv, t2)
                kind = "chord" if A[0] != B[0] else ("tangent" if A[1] == B[1] else "vertical")
                if kind == "tangent" and A[1] == 0:
                    br["undefined"] += len(LT)
                    continue
                br[kind] += len(LT)
                for (T, Ta) in LT:
                    exp = aff_line(p, inv, A, B, Ta)
                    try:
                        n, d = lf(P1, P2, T)
                        ok = d.n != 0 and n.n * inv[d.n] % p == exp
                    except Exception:  # noqa: BLE001
                        ok = False
                    if not ok:
                        r.viol("C13:%s:linefunc:%s" % (mod, kind), ME + ":replay_line",
                               {"mod": mod, "p": p, "P1": [x1, y1, z1], "P2": list(t2),
                                "T": [T[0].n, T[1].n, T[2].n]}, exp, "differs")
    n = sum(v for k, v in br.items() if k != "undefined")
    r.ev += n
    r.transitions += n
    r.dn += n
    r.notes["branches"] = br
    if x1 == 1:
        r.sample({"mod": mod, "p": p, "case": "linefunc(P1,P2,T) all finite triples, x1=1", "branches": br})
    return r


def replay_line(a):
    p, mod = a["p"], a["mod"]
    PM = importlib.import_module(PAIR[mod])
    cls = lib.fq_class("opt", p)
    inv = inv_table(p)
    A, B, T = (aff(p, inv, a[k]) for k in ("P1", "P2", "T"))
    exp = aff_line(p, inv, A, B, T)
    try:
        n, d = PM.linefunc(*(tuple(cls(c) for c in a[k]) for k in ("P1", "P2", "T")))
        got = "zero denominator" if d.n == 0 else n.n * inv[d.n] % p
    except Exception as e:  # noqa: BLE001
        got = "raise " + type(e).__name__
    return None if got == exp else {"expected": exp, "observed": got}


# ------------------------------------------------------------------ secp256k1 Jacobian
def jaff(p, inv, T):
    """Jacobian (x/z^2, y/z^3); the library's identity marker is y == 0 (and z == 0)."""
    x, y, z = T
    if y % p == 0 or z % p == 0:
        return None
    iz = inv[z % p]
    return (x * iz * iz % p, y * iz * iz * iz % p)


def secp_mod(p):
    # curve constants are irrelevant for the formulas (A = 0); N only matters for multiply
    return cfgload.load_secp(p, 7 % p or 1, 1, 0, 0)


def fedback_jac(S, p, inv, t1):
    """[(label, (expected, observed))] mismatches when raw library outputs are fed back as operands"""
    out = []
    A = jaff(p, inv, t1)
    try:
        D = S.jacobian_double(t1)
    except Exception:  # noqa: BLE001
        return out
    Da = aff_add(p, inv, A, A)
    if Da is None or Da[1] == 0:
        return out
    z1form = (Da[0], Da[1], 1)  # what to_jacobian(from_jacobian(D)) is
    cases = [("add(double(P), same point with z = 1)", lambda: S.jacobian_add(D, z1form), aff_add(p, inv, Da, Da)),
             ("add(same point with z = 1, double(P))", lambda: S.jacobian_add(z1form, D), aff_add(p, inv, Da, Da)),
             ("add(double(P), double(P))", lambda: S.jacobian_add(D, D), aff_add(p, inv, Da, Da)),
             ("double(double(P))", lambda: S.jacobian_double(D), aff_add(p, inv, Da, Da)),
             ("add(double(P), P)", lambda: S.jacobian_add(D, t1), aff_add(p, inv, Da, A)),
             ]
    mid = aff_add(p, inv, A, Da)
    if mid is not None and mid[1] != 0:  # (an intermediate sum with y == 0 cannot be represented: identity marker)
        cases.append(("add(add(P, double(P)), P)", lambda: S.jacobian_add(S.jacobian_add(t1, D), t1), aff_add(p, inv, mid, A)))
    fj, tj = getattr(S, "from_jacobian", None), getattr(S, "to_jacobian", None)
    if fj is not None and tj is not None:
        cases.append(("add(double(P), to_jacobian(from_jacobian(double(P))))", lambda: S.jacobian_add(D, tj(fj(D))), aff_add(p, inv, Da, Da)))
    for lbl, f, exp in cases:
        if exp is not None and exp[1] == 0:
            continue
        try:
            got = jaff(p, inv, f())
        except Exception as e:  # noqa: BLE001
            got = "raise " + type(e).__name__
        if got != exp:
            out.append((lbl, (exp, got)))
    return out


def replay_jac_fedback(a):
    p = a["p"]
    bad = fedback_jac(secp_mod(p), p, inv_table(p), tuple(a["P1"]))
    return None if not bad else {"case": bad[0][0], "expected": bad[0][1][0], "observed": bad[0][1][1]}


def task_jac_grid(a, env):
    p, x1 = a["p"], a["x1"]
    r = R("secp256k1-jacobian-grid")
    S = secp_mod(p)
    inv = inv_table(p)
    jadd, jdbl = S.jacobian_add, S.jacobian_double
    # valid Jacobian inputs: z != 0 (any y; y == 0 is the identity marker) and the identity
    # encodings the library itself produces: (0,0,0), (0,0,1)
    # (x, 0, z) with x != 0 is neither a finite point the encoding can hold nor an identity
    # the library produces: outside the domain
    dom = [(x, y, z) for x in range(p) for y in range(p) for z in range(1, p)
           if y != 0 or x == 0] + [(0, 0, 0)]
    for y1 in range(p):
        for z1 in range(p):
            t1 = (x1, y1, z1)
            if z1 == 0 and t1 != (0, 0, 0):
                continue
            if y1 == 0 and x1 != 0:
                continue
            A = jaff(p, inv, t1)
            # double
            r.ev += 1
            exp = aff_add(p, inv, A, A)
            if exp is not None and exp[1] == 0:
                exp = "unrepresentable"
                r.notes["unrepresentable_y0_results"] = r.notes.get("unrepresentable_y0_results", 0) + 1
            try:
                got = jaff(p, inv, jdbl(t1))
            except Exception as e:  # noqa: BLE001
                got = "raise " + type(e).__name__
            if got != exp and exp != "unrepresentable":
                r.viol("C13:secp256k1:jacobian_double:%s" % ("inf" if A is None else "pt"),
                       ME + ":replay_jac", {"p": p, "op": "double", "P1": list(t1)}, exp, got)
            # the raw outputs of the library's own functions as operands (not rebuilt from their values):
            # D = double(t1) against the same point brought to z = 1, against itself and against t1
            for lbl, bad_out in fedback_jac(S, p, inv, t1):
                r.ev += 1
                r.viol("C13:secp256k1:returned-triple-as-operand:%s" % lbl.split("(")[0], ME + ":replay_jac_fedback",
                       {"p": p, "P1": list(t1)}, bad_out[0], bad_out[1], note=lbl)
            for t2 in dom:
                B = jaff(p, inv, t2)
                exp = aff_add(p, inv, A, B)
                if exp is not None and exp[1] == 0:
                    # an (off-curve) sum with y == 0 cannot be represented: y == 0 is the
                    # library's identity marker; never occurs on an odd-order curve
                    r.notes["unrepresentable_y0_results"] = r.notes.get("unrepresentable_y0_results", 0) + 1
                    continue
                try:
                    got = jaff(p, inv, jadd(t1, t2))
                except Exception as e:  # noqa: BLE001
                    got = "raise " + type(e).__name__
                if got != exp:
                    r.viol("C13:secp256k1:jacobian_add:%s" % path_of(p, inv, A, B),
                           ME + ":replay_jac", {"p": p, "op": "add", "P1": list(t1), "P2": list(t2)},
                           exp, got)
            r.ev += len(dom)
            r.dn += len(dom)
    r.transitions = r.ev
    if x1 == 1:
        r.sample({"p": p, "case": "jacobian_add/double on all Jacobian triples, x1=1"})
    return r


def replay_jac(a):
    p = a["p"]
    S = secp_mod(p)
    inv = inv_table(p)
    A = jaff(p, inv, a["P1"])
    try:
        if a["op"] == "double":
            exp = aff_add(p, inv, A, A)
            got = jaff(p, inv, S.jacobian_double(tuple(a["P1"])))
        else:
            exp = aff_add(p, inv, A, jaff(p, inv, a["P2"]))
            got = jaff(p, inv, S.jacobian_add(tuple(a["P1"]), tuple(a["P2"])))
        if exp is not None and exp[1] == 0:
            return None
    except Exception as e:  # noqa: BLE001
        got = "raise " + type(e).__name__
    return None if got == exp else {"expected": exp, "observed": got}


# ------------------------------------------------------------------ full size tie-in
# ------------------------------------------------------------------ linefunc / is_on_curve on the shipped field classes
def _ext_coords(cfg, env, tag):
    """coordinate alphabet of an extension field: base-field values, values of the quadratic subfield
    (only coefficients 0 and k/2), single powers of the generator, dense seeded"""
    from ..core import rng
    g = rng(env, "ext:" + tag)
    p, k = cfg.p, len(cfg.mc)

    def vec(d):
        v = [0] * k
        for i, c in d.items():
            v[i] = c % p
        return tuple(v)

    base = [vec({0: 1}), vec({0: 2}), vec({0: p - 1}), vec({0: g.randrange(p)})]
    sub = [vec({0: g.randrange(p), k // 2: g.randrange(1, p)}), vec({k // 2: 1})]
    mono = [vec({1: 1}), vec({k - 1: g.randrange(1, p)})] if k > 2 else []
    dense = [tuple(g.randrange(p) for _ in range(k))]
    return base, sub + mono + dense


def _ext_points(cfg, env, tag):
    base, other = _ext_coords(cfg, env, tag)
    zero = tuple([0] * len(cfg.mc))
    one = base[0]
    pts = []
    for x in (base[1], base[3], other[0], other[-1], zero):
        for y in (base[2], other[0], other[-1]):
            for z in (one, base[1], other[-1]):
                pts.append((x, y, z))
    return pts


def ext_line_case(mod, group, P1, P2, T):
    """None or (kind, expected, observed): projective linefunc on the module's own extension-field class
    against the affine line function computed in the model field"""
    from . import C07_full
    curve = "bn128" if "bn128" in mod else "bls12_381"
    cfg = C07_full.field_cfg(curve, group, "opt")
    F = cfg.F
    PM = importlib.import_module(PAIR[mod])

    def aff_(Pt):
        iz = F.inv(Pt[2])
        return (F.mul(Pt[0], iz), F.mul(Pt[1], iz))

    A, B, Ta = aff_(P1), aff_(P2), aff_(T)
    if A[0] != B[0]:
        kind = "chord"
        m = F.div(F.sub(B[1], A[1]), F.sub(B[0], A[0]))
        exp = F.sub(F.mul(m, F.sub(Ta[0], A[0])), F.sub(Ta[1], A[1]))
    elif A[1] == B[1]:
        kind = "tangent"
        if F.is_zero(A[1]):
            return None
        m = F.div(F.smul(F.mul(A[0], A[0]), 3), F.smul(A[1], 2))
        exp = F.sub(F.mul(m, F.sub(Ta[0], A[0])), F.sub(Ta[1], A[1]))
    else:
        kind = "vertical"
        exp = F.sub(Ta[0], A[0])
    try:
        n, d = PM.linefunc(*(tuple(cfg.lib(c) for c in Pt) for Pt in (P1, P2, T)))
        nm, dm = cfg.mod(n), cfg.mod(d)
        got = "zero denominator" if F.is_zero(dm) else F.div(nm, dm)
    except Exception as e:  # noqa: BLE001
        got = "raise " + type(e).__name__
    return None if got == exp else (kind, exp, got)


def task_line_ext(a, env):
    mod, group = a["mod"], a["group"]
    r = R("linefunc:%s:%s-operands" % (mod, "FQ2" if group == "E2" else "FQ12"))
    from . import C07_full
    curve = "bn128" if "bn128" in mod else "bls12_381"
    cfg = C07_full.field_cfg(curve, group, "opt")
    F = cfg.F
    pts = _ext_points(cfg, env, mod + group)
    P1s = pts[a["lo"]::a["step"]]
    kinds = {}
    for P1 in P1s:
        # P2: every alphabet point, P1 itself rescaled (tangent), P1 with y negated (vertical)
        lam = pts[5][2]
        P2s = pts[:: a.get("thin2", 1)] + [tuple(F.mul(c, lam) for c in P1), (P1[0], F.neg(P1[1]), P1[2])]
        for P2 in P2s:
            for T in pts[:: a.get("thinT", 1)]:
                if any(F.is_zero(Pt[2]) for Pt in (P1, P2, T)):
                    continue
                bad = ext_line_case(mod, group, P1, P2, T)
                r.ev += 1
                r.dk.add((P1, P2, T))
                if bad:
                    kinds[bad[0]] = kinds.get(bad[0], 0) + 1
                    r.viol("C13:%s:linefunc:%s:%s" % (mod, "FQ2" if group == "E2" else "FQ12", bad[0]), ME + ":replay_line_ext",
                           {"mod": mod, "group": group, "P1": [list(c) for c in P1], "P2": [list(c) for c in P2],
                            "T": [list(c) for c in T]}, bad[1], bad[2])
    r.transitions = r.ev
    if a["lo"] == 0:
        r.sample({"mod": mod, "operands": "FQ2" if group == "E2" else "FQ12", "points": len(pts),
                  "coordinate_classes": "base-field value / quadratic-subfield value / single power of w / dense, mixed per coordinate"})
    return r


def replay_line_ext(a):
    tt = lambda P: tuple(tuple(c) for c in P)  # noqa: E731
    bad = ext_line_case(a["mod"], a["group"], tt(a["P1"]), tt(a["P2"]), tt(a["T"]))
    return None if not bad else {"kind": bad[0], "expected": bad[1], "observed": bad[2]}


def other_b_case(mod, group, bi):
    """[(label, expected, observed)] is_on_curve with a curve constant other than the module's own, on the
    module's own field classes: points of y^2 = x^3 + b' (found by the model) in several scalings"""
    from . import C07_full
    curve = "bn128" if "bn128" in mod else "bls12_381"
    cfg = C07_full.field_cfg(curve, group, "opt")
    F = cfg.F
    M = importlib.import_module(CURVE[mod])
    p = cfg.p
    bs = [1, 2, 5, p - 1, 7] if group == "E1" else [(1, 0), (0, 1), (5, 3), (p - 1, 2), (2, 2)]
    b_ = F.el(bs[bi])
    out = []
    found = 0
    for xi in range(1, 60):
        x = F.el(xi) if group == "E1" else F.el((xi, 1))
        y = F.sqrt(F.add(F.mul(F.mul(x, x), x), b_))
        if y is None:
            continue
        found += 1
        for lam in ([1, 2, p - 1] if group == "E1" else [(1, 0), (0, 1), (3, 5)]):
            lam = F.el(lam)
            Pt = tuple(cfg.lib(F.mul(c, lam)) for c in (x, y, F.one))
            for lbl, bb, exp in (("own b'", b_, True), ("b' + 1", F.add(b_, F.one), False)):
                try:
                    got = M.is_on_curve(Pt, cfg.lib(bb))
                except Exception as e:  # noqa: BLE001
                    got = "raise " + type(e).__name__
                out.append(("x=%d %s" % (xi, lbl), exp, got))
        if found >= 3:
            break
    return out


def task_other_b(a, env):
    r = R("is_on_curve:caller-chosen-b:%s" % a["mod"])
    for group in ("E1", "E2"):
        for bi in range(5):
            for lbl, exp, got in other_b_case(a["mod"], group, bi):
                r.ev += 1
                r.dk.add((group, bi, lbl))
                if got is not exp:
                    r.viol("C13:%s:is_on_curve:caller-chosen-b:%s" % (a["mod"], "FQ" if group == "E1" else "FQ2"),
                           ME + ":replay_other_b", {"mod": a["mod"], "group": group, "bi": bi}, exp, got, note=lbl)
    r.sample({"mod": a["mod"], "b": "1, 2, 5, p-1, 7 (FQ) / five FQ2 values", "points": "3 per b, 3 scalings"})
    return r


def replay_other_b(a):
    for lbl, exp, got in other_b_case(a["mod"], a["group"], a["bi"]):
        if got is not exp:
            return {"case": lbl, "expected": exp, "observed": got}
    return None


def task_full(a, env):
    from . import C07_full

    r = C07_full.task_full_pairs(a, env)
    r.sub = "full-size:" + r.sub
    return r


def run(ctx):
    ctx.rule = (
        "complete grids: every coordinate tuple over GF(p) for the listed p, per function; a "
        "case is one tuple; all are distinct; control paths (generic / doubling-via-add / "
        "inverse-points / identity-operand / two-torsion; chord / tangent / vertical) are "
        "classified by the model and all occur. linefunc's tangent at y = 0 is outside the "
        "affine definition and is counted as 'undefined', not compared."
    )
    ctx.assumptions = [
        "per-variable degree of the cross-multiplied identities (<= 10 incl. the path guard) < p "
        "for p >= 11, so agreement on all of GF(p)^n decides the identity mod p (DESIGN 6/C13)",
        "the formulas' integer constants are distinct modulo the primes used",
        "secp256k1: valid Jacobian inputs are z != 0 triples and the identity encodings the "
        "library itself produces ((0,0,0), (0,0,1)) and their scalings (0,0,z)",
    ]
    add_p = [5, 7, 11, 13] if ctx.quick else [5, 7, 11, 13, 17, 19]
    un_p = [5, 7, 11, 13, 17] if ctx.quick else [5, 7, 11, 13, 17, 19, 23, 29, 31]
    eq_p = [5, 7, 11] if ctx.quick else [5, 7, 11, 13]
    line_p = [5] if ctx.quick else [5, 7]
    jac_p = [5, 7, 11] if ctx.quick else [5, 7, 11, 13, 17]
    ctx.bounds = {"add_grid_primes": add_p, "unary_grid_primes": un_p, "eq_grid_primes": eq_p,
                  "linefunc_grid_primes": line_p, "jacobian_grid_primes": jac_p}
    tasks = []
    for mod in CURVE:
        for p in reversed(add_p):
            for x1 in range(p):
                tasks.append(("add_grid", {"mod": mod, "p": p, "x1": x1}))
        for p in line_p:
            for x1 in range(p):
                tasks.append(("line_grid", {"mod": mod, "p": p, "x1": x1,
                                            "tz": None if p == 5 else [1, 2]}))
        for p in eq_p:
            for x1 in range(p):
                tasks.append(("eq_grid", {"mod": mod, "p": p, "x1": x1}))
        for p in un_p:
            tasks.append(("unary_grid", {"mod": mod, "p": p}))
    for p in jac_p:
        for x1 in range(p):
            tasks.append(("jac_grid", {"p": p, "x1": x1}))
    for curve in ("bn128", "bls12_381"):
        for group in ("E1", "E2"):
            tasks.append(("full", {"curve": curve, "group": group}))
    for mod in CURVE:
        tasks.append(("other_b", {"mod": mod}))
        for group, step in (("E12", 9), ("E2", 3)):
            for lo in range(step):
                tasks.append(("line_ext", {"mod": mod, "group": group, "lo": lo, "step": step,
                                           "thin2": (5 if group == "E12" else 3) if ctx.quick else 1,
                                           "thinT": (3 if group == "E12" else 2) if ctx.quick else 1}))
    ctx.pmap(ME, tasks)

"""C10 - hash_to_curve follows RFC 9380 and always lands in the prime-order subgroup.

map_to_curve: a complete grid of field elements u (all a + b*i with |a|, |b| <= K; all |u| <= K'
for G1) plus the exceptional inputs (u = 0, u^2 = -1/Z) and special elements; every branch of the
square-root search (model-side classification: gx1 square with each of the four root-of-unity
corrections, gx1 non-square with each of the four eta corrections, exceptional denominator,
sign flip) must be hit at least MIN_HITS times - the enumeration is extended along the grid until
it is.  Pipeline: hash_to_G1 / hash_to_G2 on the complete product messages x tags x hashes.
Oracle: mc.model.h2c (straight-line SSWU of RFC 9380 6.6.2 + isogeny + h_eff), anchored to the RFC
vectors; subgroup membership by the ec model.
"""
import hashlib
import importlib

from ..core import R, rng
from .. import lib
from ..model import h2c, params
from . import C07_full

LEVEL = "exploration"
ME = "mc.props.C10"
P = params.BLS_P
MIN_HITS = 8


def _hc():
    return importlib.import_module("py_ecc.bls.hash_to_curve")


def _cfg(group):
    return C07_full.field_cfg("bls12_381", group, "opt")


def _el(u):
    """JSON form of a model element"""
    return hex(u) if isinstance(u, int) else [hex(u[0]), hex(u[1])]


def _unel(a):
    return int(a, 16) if isinstance(a, str) else (int(a[0], 16), int(a[1], 16))


# ------------------------------------------------------------------ model-side branch classification
def classify(group, u):
    """label of the control path the optimized square-root search must take for u (computed from
    the projective numerator / denominator of eprint 2019/403 section 4, in the model field)"""
    S = h2c.g1() if group == "E1" else h2c.g2()
    F, A, B, Z = S.F, F_el(S, S.A), F_el(S, S.B), F_el(S, S.Z)
    u = F.el(u)
    t2 = F.mul(u, u)
    zt2 = F.mul(Z, t2)
    tmp = F.add(zt2, F.mul(zt2, zt2))
    D = F.neg(F.mul(A, tmp))
    N = F.mul(B, F.add(tmp, F.one))
    exc = F.is_zero(D)
    if exc:
        D = F.mul(Z, A)
    v = F.mul(F.mul(D, D), D)
    uu = F.add(F.add(F.mul(F.mul(N, N), N), F.mul(F.mul(A, N), F.mul(D, D))), F.mul(B, v))
    lab = "exceptional" if exc else "regular"
    if group == "E1":
        sq = F.sqrt(F.div(uu, v)) is not None
        return lab + (":square" if sq else ":nonsquare")
    v7 = F.pow(v, 7)
    t1 = F.mul(uu, v7)
    g = F.mul(F.pow(F.mul(t1, F.mul(v7, v)), (P * P - 9) // 16), t1)
    if F.sqrt(F.div(uu, v)) is not None:
        w = F.div(uu, F.mul(F.mul(g, g), v))  # = root^2, one of the four 4th roots of unity
        return lab + ":square:root^2=%s" % _short(w)
    cand = F.mul(g, F.mul(t2, u))
    u1 = F.mul(F.mul(F.mul(zt2, zt2), zt2), uu)
    w = F.div(u1, F.mul(F.mul(cand, cand), v))  # = eta^2
    return lab + ":nonsquare:eta^2=%s" % _short(w)


def F_el(S, x):
    return S.F.el(x)


def _short(w):
    def s(c):
        if c == 0:
            return "0"
        if c == 1:
            return "1"
        if c == P - 1:
            return "-1"
        return "#%x" % (c % 0xFFFF)
    return "(%s,%s)" % (s(w[0]), s(w[1]))


# ------------------------------------------------------------------ map_to_curve
def map_case(group, u):
    """None or (class, expected, observed)"""
    HC = _hc()
    cfg = _cfg(group)
    S = h2c.g1() if group == "E1" else h2c.g2()
    exp, _br = S.map_to_curve(u)
    lu = cfg.lib(cfg.F.el(u))
    f = HC.map_to_curve_G1 if group == "E1" else HC.map_to_curve_G2
    try:
        got = lib.opt_norm(cfg, f(lu))
    except Exception as e:  # noqa: BLE001
        return ("raises", exp, type(e).__name__)
    if got != exp:
        return ("wrong-point", exp, got)
    if group == "E2":
        # the same u carried by FQ-object coefficients (a constructor form the class keeps)
        try:
            got = lib.opt_norm(cfg, f(cfg.lib_fq(cfg.F.el(u))))
        except Exception as e:  # noqa: BLE001
            return ("raises:fq-coefficients", exp, type(e).__name__)
        if got != exp:
            return ("wrong-point:fq-coefficients", exp, got)
    # the SSWU half, when the internal is still there: sgn0(y) == sgn0(u) on the isogenous curve
    opt = importlib.import_module("py_ecc.optimized_bls12_381")
    swu = getattr(opt, "optimized_swu_G1" if group == "E1" else "optimized_swu_G2", None)
    if swu is not None:
        try:
            q = lib.opt_norm(cfg, swu(lu))
        except Exception as e:  # noqa: BLE001
            return ("swu-raises", "a point", type(e).__name__)
        want, _ = S.sswu(u)
        if q != want:
            return ("swu-wrong-point" if q is None or q[0] != want[0] or q[1] != S.F.neg(want[1])
                    else "swu-wrong-sign", want, q)
    return None


def _grid(group, K):
    if group == "E1":
        out = [0]
        for a in range(1, K + 1):
            out += [a, P - a]
        return out
    out = []
    for n in range(0, K + 1):  # shells of increasing max-norm: simplest first
        for a in range(-n, n + 1):
            for b in range(-n, n + 1):
                if max(abs(a), abs(b)) == n:
                    out.append((a % P, b % P))
    return out


def _specials(group, env):
    g = rng(env, "u:" + group)
    S = h2c.g1() if group == "E1" else h2c.g2()
    F = S.F
    out = []
    # exceptional inputs: Z^2 u^4 + Z u^2 = 0  <=>  u = 0 or u^2 = -1/Z
    rt = F.sqrt(F.div(F.neg(F.one), F.el(S.Z)))
    if rt is not None:
        out += [("u^2=-1/Z", rt), ("u^2=-1/Z", F.neg(rt))]
    # inputs whose SWU image is a kernel point of the isogeny (result: the identity); computed by the
    # model by factoring the isogeny's denominators and inverting SWU
    out += [("isogeny-kernel", u) for u in h2c.kernel_inputs(group)[0]]
    if group == "E1":
        out += [("half", (P - 1) // 2), ("half", (P + 1) // 2)]
        out += [("seeded", g.randrange(P)) for _ in range(8)]
    else:
        h1, h2_ = (P - 1) // 2, (P + 1) // 2
        out += [("half", (h1, 0)), ("half", (0, h2_)), ("half", (h1, h2_)), ("real-large", (g.randrange(P), 0)),
                ("imag-large", (0, g.randrange(P))), ("i", (0, 1)), ("-i", (0, P - 1))]
        out += [("seeded", (g.randrange(P), g.randrange(P))) for _ in range(8)]
    return out


def task_map(a, env):
    group = a["group"]
    r = R("map_to_curve:%s" % ("G1" if group == "E1" else "G2"))
    us = [_unel(x) for x in a["us"]]
    hits = {}
    for u in us:
        if r.full():
            break
        bad = map_case(group, u)
        br = classify(group, u)
        hits[br] = hits.get(br, 0) + 1
        r.ev += 1
        r.dk.add(u)
        if bad:
            r.viol("C10:%s:map_to_curve:%s:%s" % ("G1" if group == "E1" else "G2", bad[0], br.split("=")[0]),
                   ME + ":replay_map", {"group": group, "u": _el(u)}, bad[1], bad[2], note=br)
    r.notes["branch_hits"] = hits
    if a.get("sample"):
        r.sample({"group": group, "u": a["us"][:5]})
    return r


def replay_map(a):
    bad = map_case(a["group"], _unel(a["u"]))
    return None if not bad else {"class": bad[0], "expected": bad[1], "observed": bad[2]}


# ------------------------------------------------------------------ pipeline
def _failing_calls(HC, msg, H):
    """history (results and exceptions ignored): hash-to-curve entry points asked things they refuse"""
    opt = importlib.import_module("py_ecc.optimized_bls12_381")
    bad = [lambda: HC.hash_to_G2(msg, b"t" * 256, H), lambda: HC.hash_to_G1(msg, b"t" * 256, H),
           lambda: HC.hash_to_G2(None, b"tag", H), lambda: HC.map_to_curve_G2(None), lambda: HC.map_to_curve_G1(None),
           lambda: HC.map_to_curve_G2(opt.FQ(3)), lambda: HC.map_to_curve_G1(opt.FQ2([1, 2])),
           lambda: HC.clear_cofactor_G2(opt.G1), lambda: HC.hash_to_G2(msg, b"tag", None)]
    for f in bad:
        try:
            f()
        except Exception:  # noqa: BLE001
            pass


def pipe_case(group, msg, dst, hn):
    HC = _hc()
    cfg = _cfg(group)
    S = h2c.g1() if group == "E1" else h2c.g2()
    f = HC.hash_to_G1 if group == "E1" else HC.hash_to_G2
    H = getattr(hashlib, hn)
    if len(dst) > 255:
        try:
            f(msg, dst, H)
        except Exception:  # noqa: BLE001
            return None
        return ("long-tag-accepted", "an exception", "returned a point")
    exp = h2c.hash_to_curve("G1" if group == "E1" else "G2", msg, dst, hn)
    assert S.E.on_curve(exp) and S.E.mul(exp, params.BLS_R) is None  # model: lands in the subgroup
    _failing_calls(HC, msg, H)
    try:
        got = lib.opt_norm(cfg, f(msg, dst, H))
    except Exception as e:  # noqa: BLE001
        return ("raises", exp, type(e).__name__)
    if got != exp:
        if got is None or not S.E.on_curve(got):
            return ("off-curve-or-infinity", exp, got)
        if S.E.mul(got, params.BLS_R) is not None:
            return ("outside-subgroup", exp, got)
        return ("wrong-point", exp, got)
    return None


def _msgs():
    return [b"", b"abc", b"abcdef0123456789", b"q128_" + b"q" * 128, b"a512_" + b"a" * 512, bytes(range(55)),
            bytes(range(56)), bytes(range(64)), bytes(i & 0xFF for i in range(1024)), b"\x5a" * 70001,
            # b_0 and a later block of the expansion both start with a zero byte (model search)
            h2c.leading_zero_message(h2c.DST_G2, 256)]


def _tags():
    return [h2c.DST_G2, b"BLS_SIG_BLS12381G2_XMD:SHA-256_SSWU_RO_NUL_", b"BLS_SIG_BLS12381G2_XMD:SHA-256_SSWU_RO_AUG_",
            b"BLS_SIG_BLS12381G2_XMD:SHA-256_SSWU_RO_POP_", b"BLS_POP_BLS12381G2_XMD:SHA-256_SSWU_RO_POP_",
            h2c.DST_G1, b"x", b"", b"T" * 255, b"T" * 256]


def task_pipe(a, env):
    """both groups on the same (message, tag, hash), alternating the order G2,G1 / G1,G2 and
    repeating the first: one process, one call history per case"""
    r = R("hash_to_G1+hash_to_G2")
    msgs, tags = _msgs(), _tags()
    for n, (mi, ti, hn) in enumerate(a["cases"]):
        order = ("E2", "E1", "E2") if n % 2 == 0 else ("E1", "E2", "E1")
        if len(msgs[mi]) > 5000 or ti == 9:
            order = order[:2]
        for group in order:
            bad = pipe_case(group, msgs[mi], tags[ti], hn)
            r.ev += 1
            r.dk.add((group, mi, ti, hn))
            if bad:
                r.viol("C10:%s:hash_to_curve:%s" % ("G1" if group == "E1" else "G2", bad[0]), ME + ":replay_pipe",
                       {"group": group, "mi": mi, "ti": ti, "h": hn}, bad[1], bad[2])
    if a.get("sample"):
        mi, ti, hn = a["cases"][0]
        r.sample({"groups": "G2,G1,G2 / G1,G2,G1", "msg": msgs[mi][:20].hex(), "dst": tags[ti].decode(), "hash": hn})
    return r


def reuse_case(group):
    """the same bytearray tag object (and message) passed three times"""
    HC = _hc()
    cfg = _cfg(group)
    f = HC.hash_to_G1 if group == "E1" else HC.hash_to_G2
    msg, dst = bytearray(b"abc"), bytearray(h2c.DST_G2)
    m0, d0 = bytes(msg), bytes(dst)
    exp = h2c.hash_to_curve("G1" if group == "E1" else "G2", m0, d0)
    out = []
    for step in range(3):
        try:
            got = lib.opt_norm(cfg, f(msg, dst, hashlib.sha256))
        except Exception as e:  # noqa: BLE001
            got = "raise " + type(e).__name__
        if bytes(msg) != m0 or bytes(dst) != d0:
            got = "arguments mutated"
        out.append((step, exp, got))
    return out


def shift_case(group):
    """histories in one process: (message, tag) pairs whose concatenations coincide (bytes moved across the
    argument boundary) one after the other; hash constructors that report the same name with other
    parameters one after the other.  Every result is the model's."""
    import functools
    HC = _hc()
    cfg = _cfg(group)
    f = HC.hash_to_G1 if group == "E1" else HC.hash_to_G2
    gname = "G1" if group == "E1" else "G2"
    tag = h2c.DST_G2
    calls = [(b"transfer:42;ctx=A", tag, "sha256"), (b"transfer:42;", b"ctx=A" + tag, "sha256"), (b"transfer:42;ctx=A", tag, "sha256"),
             (b"", b"ab" + tag, "sha256"), (b"a", b"b" + tag, "sha256"), (b"ab", tag, "sha256"), (b"a", b"b" + tag, "sha256"),
             (b"msg", tag, "blake2b"), (b"msg", tag, functools.partial(hashlib.blake2b, digest_size=32)),
             (b"msg", tag, functools.partial(hashlib.blake2b, person=b"py_ecc")), (b"msg", tag, "blake2b"),
             (b"msg", tag, functools.partial(hashlib.blake2b, digest_size=48)), (b"msg", tag, lambda d=b"": hashlib.sha512(d)),
             (b"msg", tag, "sha512")]
    out = []
    for i, (m_, d_, hn) in enumerate(calls):
        exp = h2c.hash_to_curve(gname, m_, d_, hn)
        H = getattr(hashlib, hn) if isinstance(hn, str) else hn
        try:
            got = lib.opt_norm(cfg, f(m_, d_, H))
        except Exception as e:  # noqa: BLE001
            got = "raise " + type(e).__name__
        out.append((i, exp, got))
    return out


def task_shift(a, env):
    r = R("argument-boundary-shifts-and-parametrised-hashes")
    for group in ("E2", "E1"):
        for step, exp, got in shift_case(group):
            r.ev += 1
            r.dk.add((group, step))
            if exp != got:
                r.viol("C10:%s:hash_to_curve:history:%s" % ("G1" if group == "E1" else "G2", "boundary-shift" if step < 7 else "parametrised-hash"),
                       ME + ":replay_shift", {"group": group}, exp, got, note="call %d of the history" % step)
                break
    r.sample({"history": "hash_to_G2(b'transfer:42;ctx=A', T); hash_to_G2(b'transfer:42;', b'ctx=A' + T); ...; blake2b, blake2b(digest_size=32), ..."})
    return r


def replay_shift(a):
    for step, exp, got in shift_case(a["group"]):
        if exp != got:
            return {"call": step, "expected": exp, "observed": got}
    return None


def h2f_case(m, count, mi, ti, hn):
    """hash_to_field of the suite (section 5.2) for a count other than the 2 that hash_to_curve uses"""
    HC = _hc()
    msg, dst = _msgs()[mi], _tags()[ti]
    exp = h2c.hash_to_field(msg, count, dst, m, hn)
    f = HC.hash_to_field_FQ if m == 1 else HC.hash_to_field_FQ2
    try:
        out = f(msg, count, dst, getattr(hashlib, hn))
        got = tuple(int(x.n) for x in out) if m == 1 else tuple(tuple(int(c) for c in x.coeffs) for x in out)
    except Exception as e:  # noqa: BLE001
        got = "raise " + type(e).__name__
    return exp, got


def task_h2f(a, env):
    r = R("hash_to_field:counts")
    for m in (1, 2):
        for count in range(0, 7):
            for (mi, ti, hn) in ((1, 0, "sha256"), (0, 1, "sha256"), (2, 5, "sha512")):
                exp, got = h2f_case(m, count, mi, ti, hn)
                r.ev += 1
                r.dk.add((m, count, mi, ti, hn))
                if exp != got:
                    r.viol("C10:hash_to_field:m=%d:%s" % (m, "count<=2" if count <= 2 else "count>2"), ME + ":replay_h2f",
                           {"m": m, "count": count, "mi": mi, "ti": ti, "h": hn}, exp, got)
    r.sample({"counts": "0..6", "m": [1, 2]})
    return r


def replay_h2f(a):
    exp, got = h2f_case(a["m"], a["count"], a["mi"], a["ti"], a["h"])
    return None if exp == got else {"expected": exp, "observed": got}


def task_reuse(a, env):
    r = R("hash_to_curve:bytearray-arguments-reused")
    for group in ("E2", "E1"):
        for step, exp, got in reuse_case(group):
            r.ev += 1
            r.dk.add((group, step))
            if exp != got:
                r.viol("C10:%s:hash_to_curve:bytearray-reuse" % ("G1" if group == "E1" else "G2"), ME + ":replay_reuse",
                       {"group": group}, exp, got, note="call %d of 3" % step)
                break
    r.sample({"sequence": "hash_to_G2/G1(bytearray msg, bytearray tag, sha256) x 3 on the same objects"})
    return r


def replay_reuse(a):
    for step, exp, got in reuse_case(a["group"]):
        if exp != got:
            return {"call": step, "expected": exp, "observed": got}
    return None


def replay_pipe(a):
    bad = pipe_case(a["group"], _msgs()[a["mi"]], _tags()[a["ti"]], a["h"])
    return None if not bad else {"class": bad[0], "expected": bad[1], "observed": bad[2]}


def run(ctx):
    ctx.rule = ("map_to_curve: one case per field element u of the grid / special set, distinct by value; "
                "branch coverage measured per label (notes.branch_hits) and required >= %d per square-root "
                "branch; pipeline: one case per (message, tag, hash)" % MIN_HITS)
    ctx.assumptions = ["golden isogeny tables validated algebraically and by RFC vectors at setup",
                       "branch labels are computed in the model from the projective N/D of eprint 2019/403"]
    q = ctx.quick
    tasks = []
    plan = {}
    for group, K in (("E2", 6 if q else 16), ("E1", 200 if q else 2000)):
        # extend the grid until every square-root branch that the model finds reachable has
        # MIN_HITS hits (model-side classification only - cheap), cap at 4x the nominal grid
        grid = _grid(group, K)
        hits = {}
        for u in grid:
            b = classify(group, u)
            hits[b] = hits.get(b, 0) + 1
        want = 8 if group == "E2" else 2
        k2 = K
        capped = False
        while sum(1 for b, n in hits.items() if b.startswith("regular") and n >= MIN_HITS) < want:
            k2 += 1
            if k2 > 4 * K:
                capped = True
                break
            ext = [u for u in _grid(group, k2) if u not in set(grid)]
            for u in ext:
                b = classify(group, u)
                hits[b] = hits.get(b, 0) + 1
            grid += ext
        us = grid + [u for _l, u in _specials(group, ctx.env)]
        plan[group] = {"grid_K": k2, "elements": len(us), "branch_hits_planned": hits, "cap_reached": capped}
        nt = 12 if group == "E2" else 6
        for i in range(nt):
            tasks.append(("map", {"group": group, "us": [_el(u) for u in us[i::nt]], "sample": i == 0}))
    hashes = ["sha256", "sha512", "sha3_256"]
    nm, nt_ = len(_msgs()), len(_tags())
    cases = [(mi, ti, hn) for hn in hashes for mi in range(nm) for ti in range(nt_)
             if (hn == "sha256" or (mi in (0, 1, 4) and ti in (0, 1, 7, 9))) and (not q or mi < 8 or ti < 2)]
    if q:
        cases = [c for c in cases if c[1] in (0, 1, 3, 4, 6, 7, 8, 9) or c[0] < 2]
    # the hashes / tags of one message stay in one task (one process, one call history): a result
    # memoised under too coarse a key shows up inside the task
    cases.sort(key=lambda c: (c[0], c[1], c[2]))
    n = 32
    per = -(-len(cases) // n)
    for i in range(n):
        ch = cases[i * per:(i + 1) * per]
        if ch:
            tasks.append(("pipe", {"cases": ch, "sample": i == 0}))
    tasks.append(("reuse", {}))
    tasks.append(("shift", {}))
    tasks.append(("h2f", {}))
    ctx.bounds = {"map_to_curve": plan, "pipeline_cases_per_group": len(cases), "hashes": hashes}
    ctx.pmap(ME, tasks)
    # branch-coverage requirement is part of the evidence, not a verdict on the code
    for name in ctx.order:
        if name.startswith("map_to_curve"):
            s = ctx.subs[name]
            bh = s.notes.get("branch_hits", {})
            low = {b: n for b, n in bh.items() if b.startswith("regular") and n < MIN_HITS}
            if low or plan["E2" if name.endswith("G2") else "E1"]["cap_reached"]:
                s.caps.append("branch coverage below %d for %s" % (MIN_HITS, sorted(low)))

"""C03 - aggregation is the group sum and aggregate checks accept only it.

Explicit-state exploration.  A STATE is a multiset of (signer, message) pairs over a small pool
(3 signers + a 4th holding the same key as the 1st + a 5th whose key is the sum of two others;
2-3 messages).  TRANSITIONS from every state, each executed on the real code and on the
reference model in lock-step:
  * Aggregate over EVERY permutation and EVERY grouping (nested Aggregate calls) of the state's
    signatures - all must return the same bytes, equal to the model's encoding of the point sum;
  * the honest claim and EVERY single-element deviation of it through AggregateVerify (and
    FastAggregateVerify on single-message states): drop / duplicate / substitute a signer, a key
    or a message, swap messages, reorder one or both lists, lists of different lengths, empty
    lists, an invalid / identity / non-subgroup key in each position, the aggregate negated,
    shifted by G2, replaced by another state's aggregate or by the identity.
REFERENCE MODEL: a signature is a formal vector sum of c * [H(tag, msg')] over Z_r (one symbol per
distinct hashed string; msg' = pk || msg in the augmentation suite).  Aggregate = vector sum;
AggregateVerify is True iff the suite preconditions hold and the vectors agree.  This gives
the exact expected verdict also for coincidences (repeated keys, k1 + k2 = k3, duplicate pairs).
"""
import itertools

from ..core import R, rng
from ..model import bls as MB
from ..model import params
from . import blslib as BL

LEVEL = "model_checking"
ME = "mc.props.C03"
R_ = MB.R
E2 = BL.E2

MSG = [b"message A", b"", b"message C is longer " * 4]


def signer_keys(env):
    g = rng(env, "signers")
    k0, k1, k2 = g.randrange(1, R_), g.randrange(1, R_), g.randrange(1, R_)
    return [k0, k1, k2, k0, (k0 + k1) % R_, R_ - k0]  # 3: same key as 0; 4: k0 + k1; 5: -k0 (cancels 0)


# ------------------------------------------------------------------ reference model (formal vectors)
def vadd(a, b):
    out = dict(a)
    for s, c in b.items():
        out[s] = (out.get(s, 0) + c) % R_
        if out[s] == 0:
            del out[s]
    return out


def vscale(a, k):
    return {s: (c * k) % R_ for s, c in a.items() if (c * k) % R_}


def sym(suite, pk, msg):
    return ("H", MB.DST[suite], MB.hashed_message(suite, pk, msg))


def state_vec(suite, keys, state):
    v = {}
    for (si, mi) in state:
        v = vadd(v, {sym(suite, MB.sk_to_pk(keys[si]), MSG[mi]): keys[si] % R_})
    return v


def state_point(suite, keys, state):
    P = None
    for (si, mi) in state:
        P = E2.add(P, MB.sign_point(suite, keys[si], MSG[mi]))
    return P


def model_aggverify(suite, keys, pks, msgs, aggvec):
    """exact expected verdict; pks: list of ('k', signer index) | ('bad', label, bytes)"""
    if len(pks) != len(msgs) or len(pks) < 1:
        return False
    if any(p[0] == "bad" for p in pks):
        return False
    if suite == "basic" and len(set(msgs)) != len(msgs):
        return False
    v = {}
    for p, m in zip(pks, msgs):
        k = keys[p[1]]
        v = vadd(v, {sym(suite, MB.sk_to_pk(k), m): k % R_})
    return v == aggvec


def model_fastaggverify(keys, pks, msg, aggvec):
    if len(pks) < 1 or any(p[0] == "bad" for p in pks):
        return False
    ksum = sum(keys[p[1]] for p in pks) % R_
    if ksum == 0:
        return False  # aggregated key is the identity: KeyValidate fails
    return {sym("pop", b"", msg): ksum} == aggvec


# ------------------------------------------------------------------ bytes of claims
_bad_cache = {}


def bad_keys():
    if not _bad_cache:
        G = params.bls_g1()
        T = BL.torsion_points("E1")
        _bad_cache["identity"] = MB.g1_bytes(None)
        _bad_cache["non-subgroup"] = MB.g1_bytes(BL.E1.add(G, T["T_3"]))
        _bad_cache["malformed"] = b"\x00" * 48
    return _bad_cache


def pk_bytes(keys, p):
    return MB.sk_to_pk(keys[p[1]]) if p[0] == "k" else bad_keys()[p[1]]


def agg_variants(suite, keys, state, others):
    """[(label, bytes, vector)] the honest aggregate and its alterations"""
    P = state_point(suite, keys, state)
    v = state_vec(suite, keys, state)
    out = [("honest", MB.g2_bytes(P), v),
           ("negated", MB.g2_bytes(E2.neg(P)), vscale(v, R_ - 1)),
           ("plus-G2", MB.g2_bytes(E2.add(P, params.bls_g2())), vadd(v, {("G2",): 1})),
           ("identity", MB.g2_bytes(None), {})]
    for o in others:
        out.append(("aggregate-of-other-state", MB.g2_bytes(state_point(suite, keys, o)), state_vec(suite, keys, o)))
    return out


def claims(suite, state, nsigners, nmsgs):
    """[(label, pks, msg-indices, agg-variant-label)] honest claim + every single deviation"""
    base_p = [("k", si) for (si, _m) in state]
    base_m = [mi for (_s, mi) in state]
    n = len(state)
    out = [("honest", base_p, base_m, "honest")]
    for i in range(n):
        out.append(("drop[%d]" % i, base_p[:i] + base_p[i + 1:], base_m[:i] + base_m[i + 1:], "honest"))
        out.append(("duplicate[%d]" % i, base_p + [base_p[i]], base_m + [base_m[i]], "honest"))
        for s2 in range(nsigners):
            if s2 != base_p[i][1]:
                out.append(("substitute-key[%d]->%d" % (i, s2), base_p[:i] + [("k", s2)] + base_p[i + 1:], base_m, "honest"))
        for m2 in range(nmsgs):
            if m2 != base_m[i]:
                out.append(("substitute-message[%d]->%d" % (i, m2), base_p, base_m[:i] + [m2] + base_m[i + 1:], "honest"))
        for bl in ("identity", "non-subgroup", "malformed"):
            out.append(("bad-key[%d]:%s" % (i, bl), base_p[:i] + [("bad", bl)] + base_p[i + 1:], base_m, "honest"))
    # an extra (invalid key, fresh message) pair appended to an otherwise honest claim: an
    # identity key contributes the factor 1 to the pairing product
    spare = [m for m in range(nmsgs) if m not in base_m]
    for bl in ("identity", "non-subgroup"):
        out.append(("append-bad-pair:%s" % bl, base_p + [("bad", bl)], base_m + [spare[0] if spare else 0], "honest"))
    for i, j in itertools.combinations(range(n), 2):
        mm = list(base_m)
        mm[i], mm[j] = mm[j], mm[i]
        out.append(("swap-messages[%d,%d]" % (i, j), base_p, mm, "honest"))
    if n >= 2:
        out.append(("reorder-both", base_p[::-1], base_m[::-1], "honest"))
        out.append(("rotate-both", base_p[1:] + base_p[:1], base_m[1:] + base_m[:1], "honest"))
        out.append(("reorder-keys-only", base_p[::-1], base_m, "honest"))
    # coincidence claims: signer 4 holds k0 + k1 (a legitimate alternative description in the
    # basic / pop suites, not in the augmentation suite - the model decides)
    for m in set(base_m):
        if (0, m) in state and (1, m) in state:
            rest = list(state)
            rest.remove((0, m))
            rest.remove((1, m))
            out.append(("merge-coincident-signers", [("k", 4)] + [("k", x) for x, _ in rest], [m] + [y for _, y in rest], "honest"))
        if (4, m) in state:
            rest = list(state)
            rest.remove((4, m))
            out.append(("split-coincident-signer", [("k", 0), ("k", 1)] + [("k", x) for x, _ in rest],
                        [m, m] + [y for _, y in rest], "honest"))
    out.append(("extra-key", base_p + [("k", 0)], base_m, "honest"))
    out.append(("extra-message", base_p, base_m + [0], "honest"))
    out.append(("missing-last-key", base_p[:-1], base_m, "honest"))
    out.append(("empty-lists", [], [], "honest"))
    for al in ("negated", "plus-G2", "identity", "aggregate-of-other-state"):
        out.append(("aggregate:" + al, base_p, base_m, al))
    return out


def other_state(state, nsigners, nmsgs):
    si, mi = state[0]
    return [((si + 1) % min(nsigners, 3), mi)] + list(state[1:])


def eval_claim(suite, keys, state, claim, entry="AggregateVerify"):
    label, pks, mis, al = claim
    others = [other_state(state, 3, 2)]
    av = {l: (b, v) for (l, b, v) in agg_variants(suite, keys, state, others)}
    aggb, aggv = av[al]
    C = BL.suite_cls(suite)
    pkb = [pk_bytes(keys, p) for p in pks]
    if entry == "AggregateVerify":
        msgs = [MSG[m] for m in mis]
        exp = model_aggverify(suite, keys, pks, msgs, aggv)
        got = BL.verdict(C.AggregateVerify, pkb, msgs, aggb)
    else:
        m = MSG[mis[0]] if mis else MSG[0]
        exp = model_fastaggverify(keys, pks, m, aggv)
        got = BL.verdict(C.FastAggregateVerify, pkb, m, aggb)
    return exp, got


def fast_claims(state, nsigners):
    """claims for FastAggregateVerify on a single-message state"""
    base_p = [("k", si) for (si, _m) in state]
    mi = state[0][1]
    n = len(state)
    out = [("honest", base_p, [mi], "honest")]
    for i in range(n):
        out.append(("drop[%d]" % i, base_p[:i] + base_p[i + 1:], [mi], "honest"))
        out.append(("duplicate[%d]" % i, base_p + [base_p[i]], [mi], "honest"))
        for s2 in range(nsigners):
            if s2 != base_p[i][1]:
                out.append(("substitute-key[%d]->%d" % (i, s2), base_p[:i] + [("k", s2)] + base_p[i + 1:], [mi], "honest"))
        for bl in ("identity", "non-subgroup", "malformed"):
            out.append(("bad-key[%d]:%s" % (i, bl), base_p[:i] + [("bad", bl)] + base_p[i + 1:], [mi], "honest"))
    sset = [x for x, _ in state]
    if 0 in sset and 1 in sset:
        rest = list(sset)
        rest.remove(0)
        rest.remove(1)
        out.append(("merge-coincident-signers", [("k", 4)] + [("k", x) for x in rest], [mi], "honest"))
    if 4 in sset:
        rest = list(sset)
        rest.remove(4)
        out.append(("split-coincident-signer", [("k", 0), ("k", 1)] + [("k", x) for x in rest], [mi], "honest"))
    for bl in ("identity", "non-subgroup"):
        out.append(("append-bad-key:%s" % bl, base_p + [("bad", bl)], [mi], "honest"))
    out.append(("other-message", base_p, [(mi + 1) % 2], "honest"))
    if n >= 2:
        out.append(("reorder-keys", base_p[::-1], [mi], "honest"))
    out.append(("empty-list", [], [mi], "honest"))
    for al in ("negated", "plus-G2", "identity", "aggregate-of-other-state"):
        out.append(("aggregate:" + al, base_p, [mi], al))
    return out


# ------------------------------------------------------------------ tasks
def groupings(items):
    """ways to aggregate `items` (in this order) with nested Aggregate calls.  A tree is a list
    (one Aggregate call over its evaluated children); a leaf is a signature."""
    items = list(items)
    n = len(items)
    trees = [items, [items]]  # flat; Aggregate([Aggregate(items)])
    for k in range(1, n):
        L, Rr = items[:k], items[k:]
        trees.append([L if len(L) > 1 else L[0], Rr if len(Rr) > 1 else Rr[0]])
    if n >= 3:
        t = [items[0], items[1]]
        for x in items[2:]:
            t = [t, x]
        trees.append(t)  # left fold
        t = [items[-2], items[-1]]
        for x in reversed(items[:-2]):
            t = [x, t]
        trees.append(t)  # right fold
    return trees


def run_tree(C, t):
    """evaluate an aggregation tree with the real Aggregate"""
    if isinstance(t, bytes):
        return t
    return C.Aggregate([run_tree(C, c) for c in t])


def agg_case(suite, keys, state, perm, gi):
    C = BL.suite_cls(suite)
    sigs = [MB.sign(suite, keys[si], MSG[mi]) for (si, mi) in state]
    order = tuple(sigs[i] for i in perm)
    tree = list(groupings(order))[gi]
    exp = ("ok", MB.g2_bytes(state_point(suite, keys, state)))
    try:
        got = ("ok", bytes(run_tree(C, tree)))
    except Exception as e:  # noqa: BLE001
        got = ("raise", type(e).__name__)
    return exp, got


def task_aggregate(a, env):
    suite = a["suite"]
    keys = signer_keys(env)
    r = R("Aggregate:%s" % suite)
    for state in a["states"]:
        state = [tuple(x) for x in state]
        n = len(state)
        seen_out = set()
        for perm in itertools.permutations(range(n)):
            ng = len(list(groupings(tuple(range(n)))))
            for gi in range(ng):
                exp, got = agg_case(suite, keys, state, perm, gi)
                r.ev += 1
                r.transitions += 1
                seen_out.add(got)
                if exp != got:
                    r.viol("C03:Aggregate:%s:%s" % (suite, "order" if gi == 0 else "grouping"), ME + ":replay_agg",
                           {"suite": suite, "state": state, "perm": list(perm), "gi": gi, "seed": env["seed"]}, exp, got)
        r.states += 1
        r.dn += 1
        r.notes["distinct_outputs_per_state_max"] = max(r.notes.get("distinct_outputs_per_state_max", 0), len(seen_out))
    if a.get("sample"):
        r.sample({"suite": suite, "state(signer,message)": a["states"][-1], "transitions": "all permutations x groupings"})
    return r


def replay_agg(a):
    env = {"seed": a["seed"], "pid": "C03", "tier": "quick"}
    exp, got = agg_case(a["suite"], signer_keys(env), [tuple(x) for x in a["state"]], tuple(a["perm"]), a["gi"])
    return None if exp == got else {"expected": exp, "observed": got}


def refuse_case(suite, i):
    C = BL.suite_cls(suite)
    s = MB.sign(suite, 7, b"x")
    arg = [[], [s[:95]], [s + b"\x00"], [s, b""], [s, s[:48]], [b"\x00" * 95], ()][i]
    o = BL.call(C.Aggregate, arg)
    return ("raise", "ValidationError"), (o if o[0] == "raise" else ("returned", repr(o[1])[:40]))


def special_case(i):
    """Aggregate on encodings of curve points with y at the sign boundary / y.c1 = 0 (not
    subgroup points - Aggregate only decodes and adds): [R] -> R, [R, S] -> R + S, nested"""
    from ..model import zcash

    HALF = zcash.HALF
    ys = [(a_, HALF + d_) for d_ in (0, 1) for a_ in range(0, 16)] + [(3, 0), (HALF, 0), (HALF + 1, 0), (0, 5)]
    pts = zcash.g2_points_with_y(ys)
    Rm = pts[i % len(pts)]
    Sm = MB.sign_point("basic", 7, b"x")
    out = []
    C = BL.suite_cls("basic")
    encR, encS = MB.g2_bytes(Rm), MB.g2_bytes(Sm)
    for lbl, lst, exp in (("[R]", [encR], Rm), ("[R,S]", [encR, encS], E2.add(Rm, Sm)), ("[S,R]", [encS, encR], E2.add(Rm, Sm)),
                          ("[R,R]", [encR, encR], E2.double(Rm)), ("[R,-R,S]", [encR, MB.g2_bytes(E2.neg(Rm)), encS], Sm)):
        o = BL.call(C.Aggregate, lst)
        got = ("ok", bytes(o[1])) if o[0] == "ok" and isinstance(o[1], (bytes, bytearray)) else o
        out.append((lbl, ("ok", MB.g2_bytes(exp)), got))
    o = BL.call(C.Aggregate, [C.Aggregate([encR]), encS]) if True else None
    out.append(("[[R],S]", ("ok", MB.g2_bytes(E2.add(Rm, Sm))), ("ok", bytes(o[1])) if o[0] == "ok" else o))
    return out


def task_special(a, env):
    r = R("Aggregate:boundary-sign-and-non-subgroup-points")
    for i in a["idx"]:
        for lbl, exp, got in special_case(i):
            r.ev += 1
            r.transitions += 1
            r.dk.add((i, lbl))
            if exp != got:
                r.viol("C03:Aggregate:special-point:%s" % lbl, ME + ":replay_special", {"i": i}, exp, got)
    r.states = len(a["idx"])
    r.sample({"points": "curve points of E'(Fp2) with y.c1 = (p-1)/2, (p+1)/2, y.c1 = 0 (cube-root construction)", "lists": ["[R]", "[R,S]", "[R,R]", "[R,-R,S]", "[[R],S]"]})
    return r


def replay_special(a):
    for lbl, exp, got in special_case(a["i"]):
        if exp != got:
            return {"list": lbl, "expected": exp, "observed": got}
    return None


def torsion_case(which):
    """FastAggregateVerify on two keys outside the subgroup whose cofactor components cancel
    (a*G + T, b*G - T) with the honest signature of a + b: every key must be valid on its own"""
    T = BL.torsion_points("E1")[which]
    G = params.bls_g1()
    a_, b_ = 1234567, 7654321
    pks = [MB.g1_bytes(BL.E1.add(BL.E1.mul(G, a_), T)), MB.g1_bytes(BL.E1.add(BL.E1.mul(G, b_), BL.E1.neg(T)))]
    sig = MB.sign("pop", (a_ + b_) % R_, MSG[0])
    C = BL.suite_cls("pop")
    out = [("FastAggregateVerify", False, BL.verdict(C.FastAggregateVerify, pks, MSG[0], sig))]
    # the same unsafe key three times with T of order 3: components cancel as well
    if which == "T_3":
        pk3 = MB.g1_bytes(BL.E1.add(BL.E1.mul(G, a_), T))
        sig3 = MB.sign("pop", (3 * a_) % R_, MSG[0])
        out.append(("FastAggregateVerify x3", False, BL.verdict(C.FastAggregateVerify, [pk3, pk3, pk3], MSG[0], sig3)))
    return out


class _Seq:
    """a minimal collections.abc.Sequence that is neither list nor tuple"""

    def __init__(self, items):
        self._i = list(items)

    def __len__(self):
        return len(self._i)

    def __getitem__(self, k):
        return self._i[k]

    def __iter__(self):
        return iter(self._i)


import collections  # noqa: E402
import collections.abc  # noqa: E402

collections.abc.Sequence.register(_Seq)
CONTAINERS = [("list", list), ("tuple", tuple), ("deque", collections.deque), ("Sequence", _Seq)]


def container_case(suite, ci):
    """the key / message / signature collections given as other sequence types: same answers as for lists"""
    name, mk = CONTAINERS[ci]
    C = BL.suite_cls(suite)
    sks = [0x1001, 0x2002, 0x3003]
    pks = [MB.sk_to_pk(k) for k in sks]
    msgs = [MSG[0], MSG[1], MSG[0] + b"!"]
    sigs = [MB.sign(suite, k, m) for k, m in zip(sks, msgs)]
    agg = MB.aggregate(sigs)
    out = [("Aggregate(%s)" % name, ("ok", agg), BL.call(C.Aggregate, mk(sigs))),
           ("AggregateVerify(%s, %s)" % (name, name), True, BL.verdict(C.AggregateVerify, mk(pks), mk(msgs), agg)),
           ("AggregateVerify(%s, list): messages of signers 2 and 3 swapped" % name, False,
            BL.verdict(C.AggregateVerify, mk(pks), [msgs[0], msgs[2], msgs[1]], agg)),
           ("AggregateVerify(list, %s): one signer short" % name, False, BL.verdict(C.AggregateVerify, pks[:2], mk(msgs[:2]), agg))]
    if name == "list":
        # the caller's own list objects, changed in place between calls
        k4 = 0x4004
        Lp, Lm, Ls = list(pks), list(msgs), list(sigs)
        out.append(("AggregateVerify(lists) before the in-place change", True, BL.verdict(C.AggregateVerify, Lp, Lm, agg)))
        Lp[2], Ls[2] = MB.sk_to_pk(k4), MB.sign(suite, k4, msgs[2])
        agg2 = MB.aggregate(Ls)
        out += [("AggregateVerify(same list objects, third key replaced in place, old aggregate)", False, BL.verdict(C.AggregateVerify, Lp, Lm, agg)),
                ("AggregateVerify(same list objects, third key replaced in place, new aggregate)", True, BL.verdict(C.AggregateVerify, Lp, Lm, agg2)),
                ("Aggregate(same list object, third signature replaced in place)", ("ok", agg2), BL.call(C.Aggregate, Ls))]
        Lm[0] = b"another message"
        out.append(("AggregateVerify(same list objects, first message replaced in place)", False, BL.verdict(C.AggregateVerify, Lp, Lm, agg2)))
        # Aggregate: a list with an undecodable signature is refused, and so is every extension of it
        bad = b"\x9a" + b"\x11" * 95
        for lbl, lst, want in (("Aggregate(first two)", sigs[:2], ("ok", MB.aggregate(sigs[:2]))),
                               ("Aggregate(first two + undecodable)", sigs[:2] + [bad], "raise"),
                               ("Aggregate(first two + undecodable + third)", sigs[:2] + [bad, sigs[2]], "raise"),
                               ("Aggregate(first two + undecodable) again", sigs[:2] + [bad], "raise"),
                               ("Aggregate(all three)", sigs, ("ok", agg)),
                               ("Aggregate(all three + first again)", sigs + sigs[:1], ("ok", MB.aggregate(sigs + sigs[:1]))),
                               ("Aggregate(first two) again", sigs[:2], ("ok", MB.aggregate(sigs[:2])))):
            o = BL.call(C.Aggregate, lst)
            out.append((lbl, want, "raise" if o[0] == "raise" else o))
    if suite == "pop":
        same = [MB.sign("pop", k, MSG[0]) for k in sks]
        if name == "list":
            L = list(pks)
            out.append(("FastAggregateVerify(list) before the in-place change", True, BL.verdict(C.FastAggregateVerify, L, MSG[0], MB.aggregate(same))))
            L[2] = MB.sk_to_pk(0x4004)
            new = MB.aggregate(same[:2] + [MB.sign("pop", 0x4004, MSG[0])])
            out += [("FastAggregateVerify(same list object, third key replaced in place, old aggregate)", False,
                     BL.verdict(C.FastAggregateVerify, L, MSG[0], MB.aggregate(same))),
                    ("FastAggregateVerify(same list object, third key replaced in place, new aggregate)", True,
                     BL.verdict(C.FastAggregateVerify, L, MSG[0], new))]
        out += [("FastAggregateVerify(%s)" % name, True, BL.verdict(C.FastAggregateVerify, mk(pks), MSG[0], MB.aggregate(same))),
                ("FastAggregateVerify(%s): one key short" % name, False, BL.verdict(C.FastAggregateVerify, mk(pks[:2]), MSG[0], MB.aggregate(same))),
                ("_AggregatePKs(%s)" % name, ("ok", MB.g1_bytes(BL.E1.mul(params.bls_g1(), sum(sks) % R_))), BL.call(C._AggregatePKs, mk(pks)))]
    return out


def task_containers(a, env):
    r = R("sequence-types-of-the-collections")
    for suite in a["suites"]:
        for ci in range(len(CONTAINERS)):
            for lbl, exp, got in container_case(suite, ci):
                r.ev += 1
                r.transitions += 1
                r.dk.add((suite, lbl))
                if exp != got:
                    r.viol("C03:%s:container-type:%s" % (suite, lbl.split("(")[0]), ME + ":replay_containers",
                           {"suite": suite, "ci": ci}, exp, got, note=lbl)
    r.states = 1
    r.sample({"collections": [n for n, _ in CONTAINERS]})
    return r


def replay_containers(a):
    for lbl, exp, got in container_case(a["suite"], a["ci"]):
        if exp != got:
            return {"case": lbl, "expected": exp, "observed": got}
    return None


def task_torsion(a, env):
    r = R("FastAggregateVerify:cancelling-non-subgroup-keys")
    for which in ("T_3", "T_11", "cofactor-component"):
        for lbl, exp, got in torsion_case(which):
            r.ev += 1
            r.transitions += 1
            r.dk.add((which, lbl))
            if exp != got:
                r.viol("C03:FastAggregateVerify:pop:accepts:cancelling-torsion-keys", ME + ":replay_torsion", {"which": which}, exp, got, note=lbl)
    r.states = 1
    r.sample({"keys": "a*G + T and b*G - T (T of order 3, 11, or a full cofactor component)", "signature": "honest signature of a + b"})
    return r


def replay_torsion(a):
    for lbl, exp, got in torsion_case(a["which"]):
        if exp != got:
            return {"call": lbl, "expected": exp, "observed": got}
    return None


def task_refuse(a, env):
    r = R("Aggregate:refusals")
    for suite in BL.SUITES:
        for i in range(7):
            exp, got = refuse_case(suite, i)
            r.ev += 1
            r.transitions += 1
            r.dk.add((suite, i))
            if exp != got:
                r.viol("C03:Aggregate:%s:accepts-%s" % (suite, "empty" if i in (0, 6) else "wrong-size"),
                       ME + ":replay_refuse", {"suite": suite, "i": i}, exp, got)
    r.states = 1
    r.sample({"refused": ["[]", "[95 bytes]", "[97 bytes]", "[sig, b'']", "[sig, 48 bytes]", "()"]})
    return r


def replay_refuse(a):
    exp, got = refuse_case(a["suite"], a["i"])
    return None if exp == got else {"expected": exp, "observed": got}


def task_verify(a, env):
    suite, entry = a["suite"], a["entry"]
    keys = signer_keys(env)
    r = R("%s:%s" % (entry, suite))
    state = [tuple(x) for x in a["state"]]
    cl = claims(suite, state, a["nsigners"], a["nmsgs"]) if entry == "AggregateVerify" else fast_claims(state, a["nsigners"])
    outcomes = {}
    for ci in range(a["lo"], len(cl), a["step"]):
        claim = cl[ci]
        exp, got = eval_claim(suite, keys, state, claim, entry)
        r.ev += 1
        r.transitions += 1
        outcomes[str(exp)] = outcomes.get(str(exp), 0) + 1
        if exp != got:
            kind = "accepts" if got is True else ("rejects-valid" if got is False else "not-a-bool")
            r.viol("C03:%s:%s:%s:%s" % (entry, suite, kind, claim[0].split("[")[0].split(":")[0]), ME + ":replay_verify",
                   {"suite": suite, "entry": entry, "state": state, "ci": ci, "nsigners": a["nsigners"],
                    "nmsgs": a["nmsgs"], "seed": env["seed"]}, exp, got, note=claim[0])
    if a["lo"] == 0:
        r.states += 1
        r.dn += 1
    r.notes["expected_verdicts"] = outcomes
    if a.get("sample"):
        r.sample({"entry": entry, "suite": suite, "state(signer,message)": a["state"],
                  "claims": [c[0] for c in cl[:10]], "n_claims": len(cl)})
    return r


def cross_case(keys, state, sa, sb):
    """one process, one history: the honest claim in suite A, then in suite B, then A's aggregate
    presented to B and B's to A, then A again - every verdict against the model"""
    out = []
    base_p = [("k", si) for (si, _m) in state]
    pkb = [pk_bytes(keys, p) for p in base_p]
    msgs = [MSG[mi] for (_s, mi) in state]
    agg = {s: MB.g2_bytes(state_point(s, keys, state)) for s in (sa, sb)}
    vec = {s: state_vec(s, keys, state) for s in (sa, sb)}
    for (vs, ags) in ((sa, sa), (sb, sb), (sb, sa), (sa, sb), (sa, sa), (sb, sb)):
        exp = model_aggverify(vs, keys, base_p, msgs, vec[ags])
        got = BL.verdict(BL.suite_cls(vs).AggregateVerify, pkb, msgs, agg[ags])
        out.append(("%s-verifies-%s-aggregate" % (vs, ags), exp, got))
    return out


def task_cross(a, env):
    r = R("AggregateVerify:cross-suite-histories")
    keys = signer_keys(env)
    state = [tuple(x) for x in a["state"]]
    for (sa, sb) in a["pairs"]:
        res = cross_case(keys, state, sa, sb)
        r.ev += len(res)
        r.transitions += len(res)
        r.dk.add((sa, sb, tuple(state)))
        for i, (lbl, exp, got) in enumerate(res):
            if exp != got:
                r.viol("C03:AggregateVerify:cross-suite:%s" % ("accepts" if got is True else "rejects-valid" if got is False else "not-a-bool"),
                       ME + ":replay_cross", {"state": state, "sa": sa, "sb": sb, "seed": env["seed"]}, exp, got,
                       note="step %d: %s" % (i, lbl))
                break
    r.states = 1
    r.traces = len(a["pairs"])
    r.sample({"state": a["state"], "history": ["A verifies A", "B verifies B", "B verifies A's aggregate",
                                               "A verifies B's aggregate", "A again", "B again"], "suite_pairs": a["pairs"][:2]})
    return r


def replay_cross(a):
    env = {"seed": a["seed"], "pid": "C03", "tier": "quick"}
    res = cross_case(signer_keys(env), [tuple(x) for x in a["state"]], a["sa"], a["sb"])
    for i, (lbl, exp, got) in enumerate(res):
        if exp != got:
            return {"step": i, "call": lbl, "expected": exp, "observed": got}
    return None


def replay_verify(a):
    env = {"seed": a["seed"], "pid": "C03", "tier": "quick"}
    state = [tuple(x) for x in a["state"]]
    cl = claims(a["suite"], state, a["nsigners"], a["nmsgs"]) if a["entry"] == "AggregateVerify" \
        else fast_claims(state, a["nsigners"])
    exp, got = eval_claim(a["suite"], signer_keys(env), state, cl[a["ci"]], a["entry"])
    return None if exp == got else {"claim": cl[a["ci"]][0], "expected": exp, "observed": got}


def big_case(suite, n, dev, env):
    """happy path and single drop / duplicate for n signers (thorough)"""
    g = rng(env, "big")
    ks = [g.randrange(1, R_) for _ in range(n)]
    msgs = [b"big-%d" % i for i in range(n)]
    C = BL.suite_cls(suite)
    sigs = [MB.sign(suite, k, m) for k, m in zip(ks, msgs)]
    agg = MB.aggregate(sigs)
    pks = [MB.sk_to_pk(k) for k in ks]
    if dev == "honest":
        return True, BL.verdict(C.AggregateVerify, pks, msgs, agg)
    if dev == "drop":
        return False, BL.verdict(C.AggregateVerify, pks[:-1], msgs[:-1], agg)
    if dev == "dup":
        return False, BL.verdict(C.AggregateVerify, pks + pks[:1], msgs + msgs[:1], agg)
    lib_agg = BL.call(C.Aggregate, sigs)
    return ("ok", agg), lib_agg


def task_big(a, env):
    r = R("large-n")
    exp, got = big_case(a["suite"], a["n"], a["dev"], env)
    r.ev += 1
    r.transitions += 1
    r.states += 1
    r.dk.add((a["suite"], a["n"], a["dev"]))
    if exp != got:
        r.viol("C03:large-n:%s:%s" % (a["suite"], a["dev"]), ME + ":replay_big",
               {"suite": a["suite"], "n": a["n"], "dev": a["dev"], "seed": env["seed"]}, exp, got)
    r.sample({"suite": a["suite"], "n": a["n"], "deviation": a["dev"]})
    return r


def replay_big(a):
    exp, got = big_case(a["suite"], a["n"], a["dev"], {"seed": a["seed"], "pid": "C03", "tier": "thorough"})
    return None if exp == got else {"expected": exp, "observed": got}


# ------------------------------------------------------------------ plan
def multisets(pool, kmax):
    out = []
    for k in range(1, kmax + 1):
        out += [list(c) for c in itertools.combinations_with_replacement(pool, k)]
    return out


def run(ctx):
    ctx.rule = ("states = multisets of (signer, message) pairs; transitions = Aggregate calls (every "
                "permutation x grouping) and verifier calls (honest claim + every single deviation), each run "
                "on the implementation and on the formal-vector model; distinct = states")
    ctx.assumptions = [
        "distinct hash-to-curve points (and G2) are linearly independent over Z_r (failure probability ~2^-255)",
        "signatures fed to Aggregate / the verifiers are the model's (the library's Sign is compared with the "
        "model in C09)",
    ]
    q = ctx.quick
    tasks = []
    nst = 0
    # warm the model caches (public keys, message points, signatures of the pool) before the
    # worker pool forks, so that every worker inherits them
    keys = signer_keys(ctx.env)
    for suite in BL.SUITES:
        for k in keys:
            for m in MSG:
                MB.sign_point(suite, k, m)
    bad_keys()
    for suite in BL.SUITES:
        full = suite == "basic" or not q
        ns, nm = (4, 2) if q else (6, 3)  # substitution alternatives: signers 0..3 in quick
        pool = [(s, m) for s in range(2 if q else 3) for m in range(2 if q else 3)]
        states = multisets(pool, 2) + ([[(2, 0)], [(2, 1)], [(0, 0), (2, 1)]] if q and full else [])
        if q and not full:
            # the other two suites: two singletons and the four pair shapes (distinct / same signer x
            # distinct / same message); the basic suite keeps the complete size <= 2 exploration
            states = [[(0, 0)], [(1, 1)], [(0, 0), (1, 1)], [(0, 0), (1, 0)], [(0, 0), (0, 1)], [(0, 0), (0, 0)]]
        # canonical size-3 shapes (+ coincidence signers 3: same key as 0, 4: k0 + k1)
        shapes3 = [[(0, 0), (1, 1), (2, 0)], [(0, 0), (0, 1), (1, 0)], [(0, 0), (0, 0), (1, 1)], [(0, 0), (1, 0), (2, 0)],
                   [(0, 0), (3, 1), (1, 0)], [(0, 0), (1, 0), (4, 1)], [(0, 0), (3, 0), (1, 1)], [(4, 0), (0, 1), (1, 1)]]
        coinc2 = [[(0, 0), (3, 1)], [(0, 0), (3, 0)], [(4, 0), (1, 1)], [(0, 0), (4, 0)]]
        # signer 5 cancels signer 0 on the same message: the aggregate is the identity (valid in the
        # PoP suite), and a cancelling prefix followed by more signatures
        cancel = [[(0, 0), (5, 0)], [(0, 0), (5, 0), (1, 1)]]
        if q:
            shapes3 = shapes3[:2] + shapes3[4:6] if full else shapes3[:1]
            coinc2 = coinc2 if full else coinc2[:1]
        else:
            states = multisets(pool, 2) + [list(c) for c in itertools.combinations_with_replacement(pool[:4], 3)]
            shapes3 += [[(0, 0), (1, 1), (2, 2), (0, 1)], [(0, 0), (1, 0), (2, 0), (3, 0)]]
        allstates = states + coinc2 + shapes3 + cancel
        nst += len(allstates)
        # Aggregate transitions
        for i in range(0, len(allstates), 6):
            tasks.append(("aggregate", {"suite": suite, "states": allstates[i:i + 6], "sample": i == 0}))
        for st in allstates:
            step = 3 if len(st) <= 2 else 6
            for lo in range(step):
                tasks.append(("verify", {"suite": suite, "entry": "AggregateVerify", "state": st, "nsigners": ns,
                                         "nmsgs": nm, "lo": lo, "step": step, "sample": lo == 0 and st is allstates[1]}))
    # FastAggregateVerify: single-message states over the signers (incl. coincidences)
    fstates = [[(0, 0)], [(0, 0), (1, 0)], [(0, 0), (0, 0)], [(0, 0), (3, 0)], [(0, 0), (1, 0), (4, 0)], [(0, 1), (1, 1), (2, 1)],
               [(0, 0), (5, 0)], [(0, 0), (5, 0), (1, 0)]]
    if not q:
        fstates += [[(1, 0)], [(4, 0)], [(0, 0), (1, 0), (2, 0), (3, 0)], [(0, 0), (4, 0)], [(2, 1), (2, 1), (2, 1)]]
    for st in fstates:
        step = 3
        for lo in range(step):
            tasks.append(("verify", {"suite": "pop", "entry": "FastAggregateVerify", "state": st, "nsigners": 6, "nmsgs": 2,
                                     "lo": lo, "step": step, "sample": lo == 0 and st is fstates[1]}))
    nst += len(fstates)
    tasks.append(("refuse", {}))
    tasks.append(("torsion", {}))
    for s_ in BL.SUITES:
        tasks.append(("containers", {"suites": [s_]}))
    for i in range(0, 8 if q else 16, 2):
        tasks.append(("special", {"idx": [i, i + 1]}))
    sp = [(x, y) for x in BL.SUITES for y in BL.SUITES if x != y]
    for st in ([[(0, 0), (1, 1)]] if q else [[(0, 0), (1, 1)], [(0, 0)], [(0, 1), (1, 0), (2, 2)]]):
        for i in range(0, len(sp), 2):
            tasks.append(("cross", {"state": st, "pairs": sp[i:i + 2]}))
    if not q:
        for suite in BL.SUITES:
            for n in (4, 8, 16, 32):
                for dev in ("honest", "drop", "dup", "aggregate"):
                    tasks.append(("big", {"suite": suite, "n": n, "dev": dev}))
    ctx.bounds = {"states": nst, "pool": "5 signers (2 coincidences) x %d messages" % (2 if q else 3),
                  "state_size": "<= 2 complete + size-3 shapes" if q else "<= 3 complete (4-pair pool) + size-4 shapes",
                  "deviation_bound": 1, "large_n": [] if q else [4, 8, 16, 32]}
    tasks.sort(key=lambda t: 0 if t[0] in ("big",) else (1 if t[0] == "verify" and len(t[1]["state"]) >= 3 else 2))
    ctx.pmap(ME, tasks)

"""Shared helpers of the BLS-layer checks (C01-C04): suite classes, model-built points and
encodings (torsion points, non-subgroup points, re-encodings), the pairing-argument monitor."""
import importlib

from ..core import rng
from .. import lib
from ..model import bls as MB
from ..model import params, zcash
from . import C07_full

R_ = MB.R
P = params.BLS_P
E1, E2 = zcash.E1, zcash.E2
SUITES = ("basic", "aug", "pop")


def suite_cls(s):
    return getattr(importlib.import_module("py_ecc.bls"), MB.CLASS[s])


def ValidationError():
    return importlib.import_module("eth_utils").ValidationError


def call(f, *a):
    """('ok', value) | ('raise', ExceptionTypeName)"""
    try:
        return ("ok", f(*a))
    except Exception as e:  # noqa: BLE001 - outcomes of the code under test
        return ("raise", type(e).__name__)


def verdict(f, *a):
    """True | False | 'raise <Type>' | 'non-bool <repr>' """
    try:
        v = f(*a)
    except Exception as e:  # noqa: BLE001
        return "raise " + type(e).__name__
    if v is True or v is False:
        return v
    return "non-bool " + repr(v)[:40]


# ------------------------------------------------------------------ model-built special points
def _rand_point(E, group, i):
    x = 5 + 11 * i
    while True:
        cand = E.lift_x(x if group == "E1" else (x, i + 1))
        if cand:
            return cand[0]
        x += 1


_tors_cache = {}


def torsion_points(group):
    """{label: model point}: one point of each small prime order dividing the cofactor, a
    full-cofactor component, and a generic curve point outside the subgroup."""
    if group in _tors_cache:
        return _tors_cache[group]
    E = E1 if group == "E1" else E2
    h = params.BLS_H1 if group == "E1" else params.BLS_H2
    n = h * R_
    primes = [3, 11] if group == "E1" else [13, 23]
    out = {}
    for ell in primes:
        m = n
        while m % ell == 0:
            m //= ell
        i = 0
        while True:
            T = E.mul(_rand_point(E, group, i), m)
            i += 1
            if T is not None:
                break
        while E.mul(T, ell) is not None:
            T = E.mul(T, ell)
        out["T_%d" % ell] = T
    R0 = _rand_point(E, group, 40)
    out["cofactor-component"] = E.mul(R0, R_)
    out["generic-curve-point"] = R0
    assert all(E.on_curve(T) and E.mul(T, R_) is not None for T in out.values())
    _tors_cache[group] = out
    return out


def flip_bit(b, bit):
    """flip bit `bit` (0 = least significant bit of the last byte) of a byte string"""
    n = len(b)
    v = int.from_bytes(b, "big") ^ (1 << bit)
    return v.to_bytes(n, "big")


def reencodings_g2(sig):
    """[(label, bytes)] non-canonical or altered encodings derived from a valid 96-byte encoding"""
    z1 = int.from_bytes(sig[:48], "big")
    z2 = int.from_bytes(sig[48:], "big")
    out = []

    def enc(a, b):
        return a.to_bytes(48, "big") + b.to_bytes(48, "big")

    out.append(("a-flag-flipped", enc(z1 ^ zcash.A, z2)))
    out.append(("b-flag-set", enc(z1 | zcash.B, z2)))
    out.append(("c-flag-cleared", enc(z1 & ~zcash.C, z2)))
    out.append(("second-word-a-flag", enc(z1, z2 | zcash.A)))
    out.append(("second-word-b-flag", enc(z1, z2 | zcash.B)))
    out.append(("second-word-c-flag", enc(z1, z2 | zcash.C)))
    x1 = z1 & zcash.MASK
    if x1 + P < (1 << 381):
        out.append(("x.c1+p", enc((z1 & ~zcash.MASK) | (x1 + P), z2)))
    if z2 + P < (1 << 381):
        out.append(("x.c0+p", enc(z1, z2 + P)))
    out.append(("x.c0+p-unbounded", enc(z1, (z2 + P) % (1 << 384))))
    out.append(("words-swapped", sig[48:] + sig[:48]))
    return out


def reencodings_g1(pk):
    z = int.from_bytes(pk, "big")
    out = [("a-flag-flipped", (z ^ zcash.A).to_bytes(48, "big")),
           ("b-flag-set", (z | zcash.B).to_bytes(48, "big")),
           ("c-flag-cleared", (z & ~zcash.C).to_bytes(48, "big"))]
    x = z & zcash.MASK
    if x + P < (1 << 381):
        out.append(("x+p", ((z & ~zcash.MASK) | (x + P)).to_bytes(48, "big")))
    return out


# ------------------------------------------------------------------ pairing-argument monitor
class Monitor:
    """Wraps every attribute of every loaded py_ecc module that *is* the optimized BLS12-381
    `pairing` / `miller_loop` function object.  Each call's arguments are checked with the model
    (on the curve, killed by r) before the real function runs.  Used as a context manager; all
    attributes are restored on exit."""

    def __init__(self):
        self.events = []  # (function name, argument index, problem)
        self.calls = 0
        self._saved = []

    def _check(self, name, Q, Pt):
        self.calls += 1
        for idx, (pt, group) in enumerate(((Q, "E2"), (Pt, "E1"))):
            try:
                cfg = C07_full.field_cfg("bls12_381", group, "opt")
                m = lib.opt_norm(cfg, pt)
            except Exception as e:  # noqa: BLE001
                self.events.append((name, idx, "malformed argument: " + type(e).__name__))
                continue
            E = E2 if group == "E2" else E1
            if m is None:
                continue  # infinity: on the curve and in the subgroup
            if not E.on_curve(m):
                self.events.append((name, idx, "off-curve point"))
            elif E.mul(m, R_) is not None:
                self.events.append((name, idx, "point outside the prime-order subgroup"))

    def __enter__(self):
        import sys

        opt = importlib.import_module("py_ecc.optimized_bls12_381.optimized_pairing")
        targets = {}
        for nm in ("pairing", "miller_loop"):
            f = getattr(opt, nm, None)
            if f is not None:
                targets[id(f)] = (nm, f)
        mon = self

        def wrap(nm, f):
            def w(Q, Pt, *a, **k):
                mon._check(nm, Q, Pt)
                return f(Q, Pt, *a, **k)
            w.__wrapped__ = f
            return w

        wrapped = {i: wrap(nm, f) for i, (nm, f) in targets.items()}
        for mname, mod in list(sys.modules.items()):
            if not (mname == "py_ecc" or mname.startswith("py_ecc.")) or mod is None:
                continue
            for attr, val in list(vars(mod).items()):
                if id(val) in wrapped and callable(val):
                    self._saved.append((mod, attr, val))
                    setattr(mod, attr, wrapped[id(val)])
        return self

    def __exit__(self, *exc):
        for mod, attr, val in self._saved:
            setattr(mod, attr, val)
        self._saved = []
        return False


def seeded_keys(env, n, stream="keys"):
    g = rng(env, stream)
    return [g.randrange(1, R_) for _ in range(n)]


_lead = {}


def leading_byte_keys():
    """{label: secret key} whose encodings have a coordinate in [0x1a << 376, p) (leading byte of p):
    the public key, and x.c1 / x.c0 of the signature of b"abc" (basic, PoP).  Loaded from
    golden/leading_byte_keys.json (tools/find_leading_byte_keys.py) and VALIDATED here with the
    model; an entry that does not validate is dropped (never trusted)."""
    if _lead:
        return _lead
    import json
    import os
    from ..core import ROOT

    try:
        with open(os.path.join(ROOT, "golden", "leading_byte_keys.json")) as f:
            g = json.load(f)
    except (OSError, ValueError):
        g = {}
    B = 0x1A << 376
    k = g.get("pk")
    if isinstance(k, int) and 0 < k < R_ and MB.pk_point(k)[0] >= B:
        _lead["pk.x leading byte 0x1a"] = k
    for suite in ("basic", "pop"):
        for c in ("c1", "c0"):
            k = g.get("sig:%s:%s" % (suite, c))
            if isinstance(k, int) and 0 < k < R_:
                Pt = MB.sign_point(suite, k, b"abc")
                if Pt[0][1 if c == "c1" else 0] >= B:
                    _lead["signature x.%s leading byte 0x1a (%s, message abc)" % (c, suite)] = k
    return _lead


def prelude(suite, pk, hashed_msg, dst, sig=None):
    """Unrelated-looking public calls on related inputs, made before the calls under test: the same
    message / tag hashed to the other group and under another hash, the key bytes in other byte-like
    types, an off-curve triple sharing x with the key, the negated signature.  Whatever they return
    or raise is ignored - they only form the call history."""
    import hashlib

    HC = importlib.import_module("py_ecc.bls.hash_to_curve")
    G = importlib.import_module("py_ecc.bls.g2_primitives")
    opt = importlib.import_module("py_ecc.optimized_bls12_381")
    C = suite_cls(suite)
    call(HC.hash_to_G1, hashed_msg, dst, hashlib.sha256)
    call(HC.hash_to_G2, hashed_msg, dst, hashlib.sha512)
    for wrap in (memoryview, bytearray):
        call(C.KeyValidate, wrap(pk))
    o = call(G.pubkey_to_G1, pk)
    if o[0] == "ok":
        try:
            x, y = opt.normalize(o[1])
            call(G.G1_to_pubkey, (x, y + 1, opt.FQ(1)))
        except Exception:  # noqa: BLE001
            pass
    if sig is not None and len(sig) == 96:
        call(G.signature_to_G2, bytes([sig[0] ^ 0x20]) + sig[1:])
    # field / curve operations that fail part-way (mixed extension degrees, a coefficient that is not a
    # number, mixed groups): an error path must leave nothing behind for the calls under test
    bn = importlib.import_module("py_ecc.optimized_bn128")
    for M in (opt, bn):
        x2, one12 = M.G2[0], M.FQ12.one()
        for f in (lambda: x2 * one12, lambda: one12 * x2, lambda: x2 * M.FQ2([M.FQ(3), None]), lambda: M.add(M.G1, M.G2),
                  lambda: M.multiply(M.G2[:2] + (one12,), 3), lambda: x2 / one12, lambda: one12 ** None):
            call(f)

"""C07, twist on tiny pairing-friendly curves (same function bodies, configuration loader):
EVERY point of the order-13 subgroup of E'(Fp2) of BLS-T1 (and a few thousand points of the
other tiny configurations) goes through the reference and the optimized `twist`: the image must
be the standard embedding (written from its definition in the model), lie on E(Fp12), and the
map must be additive on all pairs and injective."""
from ..core import R
from ..model.ec import Curve
from . import pairlib as PL

ME = "mc.props.C07_tiny_twist"


def model_twist(S, Q):
    """psi: E'(Fp2) -> E(Fp12); Fp2 -> Fp12 by i -> w^6 - c; D-type (BN: c = 9): (x w^2, y w^3);
    M-type (BLS12: c = 1): (x / w^2, y / w^3)"""
    if Q is None:
        return None
    F12, p = S.F12, S.p
    c = 9 if S.family == "bn128" else 1

    def emb(e):
        v = [0] * 12
        v[0] = (e[0] - c * e[1]) % p
        v[6] = e[1] % p
        return tuple(v)

    w = tuple([0, 1] + [0] * 10)
    w2 = F12.mul(w, w)
    w3 = F12.mul(w2, w)
    if S.family == "bn128":
        return (F12.mul(emb(Q[0]), w2), F12.mul(emb(Q[1]), w3))
    return (F12.div(emb(Q[0]), w2), F12.div(emb(Q[1]), w3))


def _norm12(S, fam, X):
    if fam == "ref":
        return None if X is None else (S.co(X[0]), S.co(X[1]))
    x, y, z = (S.co(c) for c in X)
    if all(c == 0 for c in z):
        return None
    iz = S.F12.inv(z)
    return (S.F12.mul(x, iz), S.F12.mul(y, iz))


def tw_case(S, fam, k, lam=(1, 0)):
    Q = S.E2.mul(S.G2, k)
    exp = model_twist(S, Q)
    C = S.curve(fam)
    lq = S.inf2(fam)[0] if Q is None else S.pt2(fam, Q, lam)
    try:
        got = _norm12(S, fam, C.twist(lq))
    except Exception as e:  # noqa: BLE001
        got = "raise " + type(e).__name__
    return exp, got


def add_case(S, fam, k1, k2):
    C = S.curve(fam)
    mk = lambda k: (S.inf2(fam)[0] if k % S.r == 0 else S.pt2(fam, S.E2.mul(S.G2, k), (2, 1) if fam == "opt" else (1, 0)))  # noqa: E731
    exp = model_twist(S, S.E2.mul(S.G2, k1 + k2))
    try:
        lhs = _norm12(S, fam, C.twist(C.add(mk(k1), mk(k2))))
        rhs = _norm12(S, fam, C.add(C.twist(mk(k1)), C.twist(mk(k2))))
    except Exception as e:  # noqa: BLE001
        return exp, "raise " + type(e).__name__
    return exp, (lhs if lhs == rhs else ("differ", lhs, rhs))


def task_tiny_twist(a, env):
    S = PL.get(a["cfg"])
    r = R("tiny-twist:%s" % a["cfg"])
    E12 = Curve(S.F12, 0, S.F12.el(S.b))
    lams = [(1, 0), (3, 5)]
    images = {}
    for k in a["ks"]:
        for fam in ("ref", "opt"):
            for lam in (lams if fam == "opt" else lams[:1]):
                exp, got = tw_case(S, fam, k, lam)
                r.ev += 1
                r.transitions += 1
                if exp is not None and not E12.on_curve(exp):
                    raise AssertionError("model twist image off E(Fp12)")
                if got != exp:
                    r.viol("C07:tiny:%s:%s:twist:%s" % (a["cfg"], fam, "inf" if exp is None else "pt"),
                           ME + ":replay_tw", {"cfg": a["cfg"], "fam": fam, "k": k, "lam": list(lam)}, exp, got)
        images[k % S.r] = model_twist(S, S.E2.mul(S.G2, k))
        r.states += 1
        r.dn += 1
    if len(set(images.values())) != len(images):
        r.viol("C07:tiny:%s:twist:not-injective" % a["cfg"], ME + ":replay_tw",
               {"cfg": a["cfg"], "fam": "ref", "k": a["ks"][0], "lam": [1, 0]}, len(images), len(set(images.values())))
    for (k1, k2) in a["pairs"]:
        for fam in ("ref", "opt"):
            exp, got = add_case(S, fam, k1, k2)
            r.ev += 1
            r.transitions += 1
            if got != exp:
                r.viol("C07:tiny:%s:%s:twist:additive" % (a["cfg"], fam), ME + ":replay_twadd",
                       {"cfg": a["cfg"], "fam": fam, "k1": k1, "k2": k2}, exp, got)
    if a.get("sample"):
        r.sample({"cfg": a["cfg"], "points": "k*G2 for k in %s.." % a["ks"][:4], "pairs": len(a["pairs"])})
    return r


def replay_tw(a):
    exp, got = tw_case(PL.get(a["cfg"]), a["fam"], a["k"], tuple(a["lam"]))
    return None if exp == got else {"expected": exp, "observed": got}


def replay_twadd(a):
    exp, got = add_case(PL.get(a["cfg"]), a["fam"], a["k1"], a["k2"])
    return None if exp == got else {"expected": exp, "observed": got}


def plan(ctx):
    tasks = []
    # BLS-T1, order 13: the whole subgroup, all pairs
    ks = list(range(0, 14))
    prs = [(a, b) for a in range(14) for b in range(14)]
    for i in range(4):
        tasks.append(("tiny_twist", {"cfg": "BLS-T1-13", "ks": ks if i == 0 else [], "pairs": prs[i::4], "sample": i == 0}))
    n = 600 if ctx.quick else 6037
    allk = list(range(0, n + 1))
    for i in range(6):
        ch = allk[i::6]
        tasks.append(("tiny_twist", {"cfg": "BLS-T1-6037", "ks": ch, "pairs": [(k, k + 1) for k in ch[:40]]}))
    for cfg in ("BN-T", "BLS-T2"):
        n = 400 if ctx.quick else 4000
        allk = list(range(0, n + 1))
        for i in range(4):
            ch = allk[i::4]
            tasks.append(("tiny_twist", {"cfg": cfg, "ks": ch, "pairs": [(k, 2 * k + 3) for k in ch[:40]], "sample": i == 0}))
    return tasks

"""Shared machinery for C08 (field axioms vs model) and C14 (optimized == reference)."""
import functools
import operator

from .. import lib
from ..model import zp


# ------------------------------------------------------------------ irreducible moduli
def _ppowmod_x(p, f, e):
    """x^e mod f over GF(p); f monic as coefficient list (low first)."""
    def mulmod(a, b):
        prod = zp._pmul(a, b, p)
        _, rem = zp._pdivmod(prod, f, p) if len(prod) >= len(f) else (None, prod)
        rem = list(rem)
        while len(rem) > 1 and rem[-1] == 0:
            rem.pop()
        return rem
    result = [1]
    base = [0, 1]
    if len(f) == 2:  # degree 1
        base = [(-f[0]) % p]
    while e:
        if e & 1:
            result = mulmod(result, base)
        e >>= 1
        if e:
            base = mulmod(base, base)
    return result


def _pgcd(a, b, p):
    a, b = list(a), list(b)

    def trim(x):
        while len(x) > 1 and x[-1] == 0:
            x.pop()
        return x
    a, b = trim(a), trim(b)
    while not (len(b) == 1 and b[0] == 0):
        if len(a) < len(b):
            a, b = b, a
            continue
        _, rem = zp._pdivmod(a, b, p)
        a, b = b, trim(list(rem))
    return a


def rabin_irreducible(p, mc):
    """Rabin's test for the monic polynomial x^n + sum mc[i] x^i over GF(p)."""
    n = len(mc)
    f = [c % p for c in mc] + [1]
    if f[0] == 0:
        return False
    qs = [q for q in range(2, n + 1) if n % q == 0 and zp.is_prime(q)]
    for q in qs:
        h = _ppowmod_x(p, f, p ** (n // q))
        h = zp._psub(h, [0, 1], p)
        g = _pgcd(f, h, p)
        if not (len(g) == 1 and g[0] != 0):
            return False
    h = _ppowmod_x(p, f, p ** n)
    h = zp._psub(h, [0, 1], p)
    return not any(c % p for c in h)


@functools.lru_cache(None)
def quadratics(p):
    """every irreducible monic quadratic x^2 + m1 x + m0 over GF(p), as (m0, m1)"""
    return tuple((m0, m1) for m1 in range(p) for m0 in range(p) if zp.is_irreducible(p, (m0, m1)))


@functools.lru_cache(None)
def deg12_moduli(p):
    """two irreducible degree-12 moduli over GF(p): the sparsest found (w^12 + a w^6 + b
    if one exists, else the first trinomial / pentanomial) and a dense one."""
    sparse = None
    for a in range(p):
        for b in range(1, p):
            mc = [b, 0, 0, 0, 0, 0, a, 0, 0, 0, 0, 0]
            if rabin_irreducible(p, mc):
                sparse = tuple(mc)
                break
        if sparse:
            break
    if sparse is None:
        import itertools
        for k in (1, 3):
            for pos in itertools.combinations(range(1, 12), k):
                mc = [1] + [0] * 11
                for i in pos:
                    mc[i] = 1
                if rabin_irreducible(p, mc):
                    sparse = tuple(mc)
                    break
            if sparse:
                break
    dense = None
    import random
    g = random.Random(12345 + p)
    while dense is None:
        mc = [g.randrange(1, p) if p > 2 else 1 for _ in range(12)]
        if p == 2:
            mc = [1] + [g.randrange(2) for _ in range(11)]
            if sum(mc) < 6:
                continue
        if rabin_irreducible(p, mc):
            dense = tuple(mc)
    return sparse, dense


# ------------------------------------------------------------------ operations
BIN = {"add": operator.add, "sub": operator.sub, "mul": operator.mul, "div": operator.truediv}


def model_bin(F, op, a, b):
    return {"add": F.add, "sub": F.sub, "mul": F.mul, "div": F.div}[op](a, b)


def canon(cfg, x):
    """library result -> ('ok', model value) if it is a canonical element of cfg.cls,
    else a descriptive non-canonical outcome.  For the optimized family the element's own
    `sgn0` (a cached property that results may inherit from their operands) must be the RFC 9380
    sgn0 of the stored coefficients."""
    if type(x) is not cfg.cls:
        return ("wrong-type", type(x).__name__)
    try:
        raw = lib.raw_coeffs(x)
    except Exception as e:  # noqa: BLE001
        return ("malformed", type(e).__name__)
    if not all(isinstance(c, int) and 0 <= c < cfg.p for c in raw):
        return ("not-reduced", raw)
    if cfg.mc is not None and len(raw) != len(cfg.mc):
        return ("malformed", len(raw))
    val = raw[0] if cfg.mc is None else tuple(raw)
    if cfg.family == "opt":
        try:
            s = x.sgn0
        except AttributeError:
            s = None
        except Exception as e:  # noqa: BLE001
            return ("sgn0-raises", type(e).__name__)
        if s is not None and s != sgn0_rfc(cfg, val):
            return ("stale-or-wrong-sgn0-on-result", [val, s])
    return ("ok", val)


def run_op(cfg, op, x, y=None):
    """Apply one operation to library values (x an element; y element / int / exponent).
    Returns a canonical outcome tuple."""
    try:
        if op in BIN:
            return canon(cfg, BIN[op](x, y))
        if op[0] == "r" and op[1:] in BIN:  # reflected: y is the int on the left
            return canon(cfg, BIN[op[1:]](y, x))
        if op == "neg":
            return canon(cfg, -x)
        if op == "inv":
            return canon(cfg, x.inv() if cfg.mc is not None else 1 / x)
        if op == "pow":
            return canon(cfg, x ** y)
        if op in ("eq", "ne", "lt", "gt", "le", "ge"):
            v = getattr(operator, op)(x, y)
            return ("ok", v) if v is True or v is False else ("non-bool", repr(v))
        if op == "one":
            return canon(cfg, cfg.cls.one())
        if op == "zero":
            return canon(cfg, cfg.cls.zero())
        if op == "sgn0":
            v = x.sgn0
            return ("ok", int(v)) if v in (0, 1) else ("bad-sgn0", repr(v))
    except RecursionError:
        return ("raise", "RecursionError")
    except Exception as e:  # noqa: BLE001
        return ("raise", type(e).__name__)
    raise ValueError(op)


def model_op(cfg, op, a, b=None):
    """Expected outcome in the model.  a: model element; b: model element, int or exponent."""
    F = cfg.F
    if op in BIN:
        if isinstance(b, int) and cfg.mc is not None:
            b = F.el(b)
        elif isinstance(b, int):
            b = b % cfg.p
        return ("ok", model_bin(F, op, a, b))
    if op[0] == "r" and op[1:] in BIN:
        k = F.el(b) if cfg.mc is not None else b % cfg.p
        return ("ok", model_bin(F, op[1:], k, a))
    if op == "neg":
        return ("ok", F.neg(a))
    if op == "inv":
        return ("ok", F.inv(a))
    if op == "pow":
        return ("ok", F.pow(a, b))
    if op == "eq":
        return ("ok", a == b)
    if op == "ne":
        return ("ok", a != b)
    if op == "lt":
        return ("ok", a < b)
    if op == "gt":
        return ("ok", a > b)
    if op == "one":
        return ("ok", F.one)
    if op == "zero":
        return ("ok", F.zero)
    if op == "sgn0":
        return ("ok", sgn0_rfc(cfg, a))
    raise ValueError(op)


def sgn0_rfc(cfg, a):
    """RFC 9380 section 4.1, written as the specification's loop."""
    coeffs = (a,) if cfg.mc is None else a
    sign = 0
    zero = 1
    for x_i in coeffs:
        sign_i = x_i % 2
        zero_i = 1 if x_i == 0 else 0
        sign = sign | (zero & sign_i)
        zero = zero & zero_i
    return sign


def cfg_of(a, fam):
    return lib.Cfg(fam, a["p"], a.get("mc"))


def cfg_name(a):
    if a.get("mc") is None:
        return "GF(%d)" % a["p"]
    return "GF(%d^%d)" % (a["p"], len(a["mc"]))


def el_json(cfg, v):
    return v if cfg.mc is None else list(v)


def el_from(cfg, v):
    return v if cfg.mc is None else tuple(v)


# includes several representatives of 0 (division must give 0 for each: inv0 of the residue)
class IntSub(int):
    """a proper subclass of int (as enum.IntEnum members and many wrapper types are)"""
    __slots__ = ()


# 10**4400 has more decimal digits than the interpreter's int -> str conversion limit (4300)
INT_OPERANDS_TINY = lambda p: [0, 1, -1, p, p + 1, -p - 1, 2 * p + 3, 2 ** 400, -p, 2 * p, p * p, -3 * p, 5 * p ** 3,  # noqa: E731
                               IntSub(p + 2), IntSub(3), 10 ** 4400 + 3, -(10 ** 4400) - 1,
                               2 ** 61 - 1, 2 ** 61, 2 ** 61 + 2]  # equal hash() as 0, 1, 3


def jint(v):
    """JSON form of an int operand: decimal conversion of > 4300-digit ints is refused by the
    interpreter, so large ones are written in hex"""
    if isinstance(v, int) and not isinstance(v, bool) and abs(v) >= 2 ** 4000:
        return {"hex": hex(v)}
    return int(v) if isinstance(v, int) and not isinstance(v, bool) else v


def unjint(v):
    return int(v["hex"], 16) if isinstance(v, dict) and "hex" in v else v


def int_forms(y):
    """replay helper: the operand as a plain int and as an int-subclass instance"""
    return [y, IntSub(y)] if type(y) is int else [y]

"""C08 - field classes satisfy the field axioms with canonical representatives.

I1: reference and optimized FQ / FQ2 / FQ12 instantiated by subclassing on tiny fields
    (every element / pair / triple; every irreducible quadratic; degree-12 extensions of
    GF(2), GF(3), GF(5), GF(7)), compared operation by operation with the zp model and
    checked for reduced storage.
I2: the shipped 254/381-bit classes over boundary alphabets, incl. exponents >= 2^4400.
"""
import itertools

from ..core import R, rng
from .. import lib
from ..model import zp, params
from . import fieldlib as fl

LEVEL = "model_checking"
ME = "mc.props.C08"


def elements(cfg, spec, env):
    """element lists (model values), simplest first"""
    F = cfg.F
    if spec == "all":
        return list(F.elems())
    p = cfg.p
    if cfg.mc is None:
        return list(F.elems())
    k = len(cfg.mc)
    vals = sorted({1 % p, (p - 1) % p, 2 % p} - {0})
    out = []
    seen = set()

    def push(t):
        t = tuple(t)
        if t not in seen:
            seen.add(t)
            out.append(t)
    push([0] * k)
    for i in range(k):
        for v in vals:
            t = [0] * k
            t[i] = v
            push(t)
    for i, j in itertools.combinations(range(k), 2):
        for v in vals[:2]:
            for w in vals[:2]:
                t = [0] * k
                t[i], t[j] = v, w
                push(t)
    for v in vals:
        push([v] * k)
        for n in range(1, k):
            push([v] * n + [0] * (k - n))  # leading-zero (low-degree) patterns
            push([0] * n + [v] * (k - n))
    # the modulus' own low coefficients and neighbours (degree drops in Euclid's algorithm)
    push([c % p for c in cfg.mc])
    push([(c + 1) % p for c in cfg.mc])
    g = rng(env, "els:%d:%s" % (p, cfg.mc))
    n_dense = int(spec.split(":")[1]) if ":" in spec else 50
    for _ in range(n_dense):
        push([g.randrange(p) for _ in range(k)])
    return out


def chain_case(cfg, fam, xm, am):
    """[(label, expected, observed)] x is used first (inverse, power, sign), then elements derived from that
    same object are built and inverted / raised"""
    F = cfg.F
    x, al = cfg.lib(xm), cfg.lib(am)
    fl.run_op(cfg, "inv", x)
    fl.run_op(cfg, "pow", x, 3)
    if fam == "opt":
        fl.run_op(cfg, "sgn0", x)
    out = []
    for lbl, d, dm in (("neg", lambda: -x, F.neg(xm)), ("add", lambda: x + al, F.add(xm, am)),
                       ("sub", lambda: x - al, F.sub(xm, am)), ("radd", lambda: al + x, F.add(am, xm)),
                       ("mul", lambda: x * al, F.mul(xm, am)), ("mul-int", lambda: x * 2, F.smul(xm, 2))):
        try:
            dv = d()
            got = [fl.canon(cfg, dv), fl.run_op(cfg, "inv", dv), fl.run_op(cfg, "pow", dv, 3)]
        except Exception as e:  # noqa: BLE001
            got = ["raise " + type(e).__name__]
        out.append((lbl, [("ok", dm), fl.model_op(cfg, "inv", dm), fl.model_op(cfg, "pow", dm, 3)], got))
    return out


def task_field(a, env):
    """One (family, configuration): complete / structured operator tables vs the model."""
    fam = a["fam"]
    cfg = fl.cfg_of(a, fam)
    F = cfg.F
    p = cfg.p
    name = fl.cfg_name(a)
    r = R("tiny:%s:%s" % (fam, "FQ" if cfg.mc is None else "FQ%d" % len(cfg.mc)))
    A = elements(cfg, a.get("A", "all"), env)
    B = elements(cfg, a.get("B", "all"), env)
    if a.get("Bmax"):
        B = B[: a["Bmax"] - 2] + B[-2:]
    if a.get("Amax") and len(A) > a["Amax"]:
        A = A[: a["Amax"] - 6] + A[-6:]
    LA = {v: cfg.lib(v) for v in A}
    LB = {v: cfg.lib(v) for v in B}
    r.states += len(A)
    q = F.q

    def bad(op, args, exp, got):
        r.viol("C08:%s:%s:%s" % (fam, "FQ" if cfg.mc is None else "FQ%d" % len(cfg.mc), op),
               ME + ":replay_op",
               {"fam": fam, "p": p, "mc": a.get("mc"), "op": op, "args": args}, exp, got)

    def check(op, x, y=None, xm=None, ym=None, yk=None):
        r.ev += 1
        r.transitions += 1
        got = fl.run_op(cfg, op, x, y)
        exp = fl.model_op(cfg, op, xm, ym)
        if got != exp:
            bad(op, {"x": None if xm is None else fl.el_json(cfg, xm),
                     "y": fl.el_json(cfg, ym) if yk == "elem" else fl.jint(ym), "yk": yk}, exp, got)

    # constants
    check("one", None)
    check("zero", None)
    # unary
    if q <= 169:
        small_exps, more_exps = list(range(0, 2 * q + 1)), []
    else:
        small_exps = [0, 1, 2, 3, q - 1, q]
        more_exps = sorted(set(range(4, 17)) | {p, p * p, q + 1})
    huge = [2 ** 700 - 1, 2 ** 700 + 1, 2 ** 4400 + 1, fl.IntSub(q + 2), 2 ** 61 - 1 + 2, 10 ** 4400 + 7]
    for i, xm in enumerate(A):
        x = LA[xm]
        check("neg", x, None, xm)
        check("inv", x, None, xm)
        for n in small_exps + (more_exps if i < 12 else []):
            check("pow", x, n, xm, n, "exp")
        if i < (3 if cfg.mc is not None and len(cfg.mc) == 12 else 12):
            for n in huge if i < (1 if cfg.mc is not None and len(cfg.mc) == 12 else 2) else huge[:-1]:
                check("pow", x, n, xm, n, "exp")
        # x * inv(x) == 1, stated directly with the library's own operators
        r.ev += 1
        try:
            ix = x.inv() if cfg.mc is not None else 1 / x
            ok = (x * ix == cfg.cls.one()) if not F.is_zero(xm) else (ix == cfg.cls.zero())
        except Exception:  # noqa: BLE001
            ok = False
        if not ok:
            bad("x*inv(x)==1", {"x": fl.el_json(cfg, xm)}, True, False)
    r.dn += len(A)
    # chains on one object: x is inverted / raised / asked for its sign first, then elements derived from
    # that same object (-x, x + a, x - a, a + x, x * a) are inverted and compared: nothing remembered on
    # an instance may travel to the elements derived from it
    for xm in A[:40]:
        for am in B[:2]:
            for lbl, exp, got in chain_case(cfg, fam, xm, am):
                r.ev += 1
                if got != exp:
                    bad("derived-from-used-object:" + lbl, {"x": fl.el_json(cfg, xm), "y": fl.el_json(cfg, am)}, exp, got)
    # int operands
    ks = fl.INT_OPERANDS_TINY(p)
    int_ops = (["add", "sub", "mul", "div", "radd", "rsub", "rmul", "rdiv"] if cfg.mc is None
               else ["mul", "div", "rmul"])
    for xm in A if len(A) <= 200 else A[:200]:
        x = LA[xm]
        for k in ks:
            for op in int_ops:
                check(op, x, k, xm, k, "int")
        if cfg.mc is None:
            for k in range(p):
                check("eq", x, k, xm, k, "int")
                check("ne", x, k, xm, k, "int")
                check("lt", x, k, xm, k, "int")
                check("gt", x, k, xm, k, "int")
    # binary
    bin_ops = ["add", "sub", "mul", "div", "eq", "ne"] + (["lt", "gt"] if cfg.mc is None else [])
    for xm in A:
        x = LA[xm]
        for ym in B:
            y = LB[ym]
            for op in bin_ops:
                check(op, x, y, xm, ym, "elem")
            if not F.is_zero(ym):
                r.ev += 1
                try:
                    ok = (x / y) * y == x
                except Exception:  # noqa: BLE001
                    ok = False
                if not ok:
                    bad("(x/y)*y==x", {"x": fl.el_json(cfg, xm), "y": fl.el_json(cfg, ym)}, True, False)
        r.dn += len(B)
    # axioms on triples, directly in the library
    T = A if len(A) <= 27 else elements(cfg, "structured:0", env)[: a.get("Tmax", 9)] if cfg.mc else A
    if len(T) > a.get("Tcap", 30):
        T = T[: a.get("Tcap", 30)]
    LT = [(t, cfg.lib(t)) for t in T]
    for (am, x), (bm, y), (cm, z) in itertools.product(LT, repeat=3):
        r.ev += 1
        try:
            ok = ((x + y) + z == x + (y + z) and (x * y) * z == x * (y * z)
                  and x * (y + z) == x * y + x * z and x + y == y + x and x * y == y * x
                  and (x - y) + y == x)
        except Exception:  # noqa: BLE001
            ok = False
        if not ok:
            bad("axioms", {"x": fl.el_json(cfg, am), "y": fl.el_json(cfg, bm), "z": fl.el_json(cfg, cm)}, True, False)
    r.dn += len(T) ** 3
    # constructor forms: lists/tuples of unreduced / negative ints, same-family elements
    for xm in A[:40]:
        forms = []
        if cfg.mc is None:
            forms = [xm + p, xm - p, xm + 7 * p, cfg.lib(xm)]
            for f in forms:
                r.ev += 1
                got = fl.canon(cfg, cfg.cls(f))
                if got != ("ok", xm):
                    bad("construct", {"x": xm}, ("ok", xm), got)
        else:
            forms = [[c + p for c in xm], tuple(c - p for c in xm), [c + 5 * p for c in xm]]
            for f in forms:
                r.ev += 1
                try:
                    e = cfg.cls(f)
                    got = fl.canon(cfg, e + cfg.cls.zero())
                    raw_ok = fl.canon(cfg, e)
                except Exception as ex:  # noqa: BLE001
                    got = raw_ok = ("raise", type(ex).__name__)
                if got != ("ok", xm) or raw_ok != ("ok", xm):
                    bad("construct", {"x": list(xm)}, ("ok", xm), [got, raw_ok])
    r.sample({"family": fam, "field": name, "modulus": a.get("mc"), "elements": len(A),
              "right_operands": len(B), "triples": len(T) ** 3})
    return r


def pow_sweep_exponents(lo, hi, quick):
    """exponents around powers of two over a long range of bit lengths (bit-length / log2 based
    round counts): 2^k, 2^k + 1, 2^k - 1"""
    es = []
    for k in range(lo, hi):
        es += [1 << k, (1 << k) + 1]
        if k % 3 == 0:
            es.append((1 << k) - 1)
    return es


def generator(F):
    """first element (in enumeration order) of full multiplicative order q - 1 (tiny fields)"""
    n = F.q - 1
    primes = [d for d in range(2, n + 1) if n % d == 0 and all(d % e for e in range(2, d))]
    for e in F.elems():
        if F.is_zero(e):
            continue
        if all(F.pow(e, n // d) != F.one for d in primes):
            return e
    raise AssertionError("no generator")


def task_pow_sweep(a, env):
    fam, p, mc = a["fam"], a["p"], tuple(a["mc"])
    cfg = lib.Cfg(fam, p, mc)
    F = cfg.F
    r = R("pow:exponents-around-2^k:%s" % fam)
    # base: a generator of the multiplicative group (order q - 1 has an odd factor, so x^(2^k) != 1
    # for every k and a dropped top bit changes the value)
    xm = generator(F)
    x = cfg.lib(xm)
    for e in pow_sweep_exponents(a["lo"], a["hi"], env["tier"] == "quick") + [(1 << k) for k in a.get("extra", [])]:
        got = fl.run_op(cfg, "pow", x, e)
        exp = ("ok", F.pow(xm, e))
        r.ev += 1
        if got != exp:
            r.viol("C08:%s:FQ%d:pow:exponent-near-2^k" % (fam, len(mc)), ME + ":replay_powsweep",
                   {"fam": fam, "p": p, "mc": list(mc), "x": list(xm), "e": hex(e)}, exp, got,
                   note="bit length %d" % e.bit_length())
    r.dn += 1
    r.transitions = r.ev
    if a.get("sample"):
        r.sample({"family": fam, "field": "GF(%d^%d)" % (p, len(mc)), "exponents": "2^k, 2^k+1, 2^k-1 for k in [%d, %d)" % (a["lo"], a["hi"])})
    return r


def replay_powsweep(a):
    cfg = lib.Cfg(a["fam"], a["p"], tuple(a["mc"]))
    xm = tuple(a["x"])
    e = int(a["e"], 16)
    got = fl.run_op(cfg, "pow", cfg.lib(xm), e)
    exp = ("ok", cfg.F.pow(xm, e))
    return None if got == exp else {"expected": exp, "observed": got}


def subsub_case(fam, p1, mc1, p2, mc2, xs):
    """class A over (p1, mc1) is created and used; then B = a subclass OF A overriding the prime and
    the modulus (p2, mc2) is created and used; then A again"""
    m = lib.fields_mod(fam)
    attr = "FQ2_MODULUS_COEFFS"
    A = type("SubA_%s_%d" % (fam, p1), (m.FQ2,), {"field_modulus": p1, attr: tuple(mc1)})
    Bc = type("SubB_%s_%d" % (fam, p2), (A,), {"field_modulus": p2, attr: tuple(mc2)})
    out = []
    for step, (cls, p, mc) in enumerate(((A, p1, mc1), (Bc, p2, mc2), (A, p1, mc1))):
        cfg = lib.Cfg(fam, p, tuple(mc), cls=cls)
        F = cfg.F
        for xm in xs:
            xm = tuple(c % p for c in xm)
            for ym in xs[:2]:
                ym = tuple(c % p for c in ym)
                for op in ("mul", "add"):
                    got = fl.run_op(cfg, op, cfg.lib(xm), cfg.lib(ym))
                    exp = fl.model_op(cfg, op, xm, ym)
                    if got != exp:
                        out.append((step, [p, list(mc)], op, [xm, ym], exp, got))
            if not F.is_zero(xm):
                got = fl.run_op(cfg, "inv", cfg.lib(xm))
                if got != ("ok", F.inv(xm)):
                    out.append((step, [p, list(mc)], "inv", [xm], ("ok", F.inv(xm)), got))
    return out


def seq_case(fam, p, mcs, xs):
    """one process, one history: classes over the SAME prime with DIFFERENT moduli are created and
    used one after the other (A, B, A again): products, inverses and powers against the model.
    Fresh class objects every time (no harness cache): what the library keeps per (prime, degree)
    must not leak from one modulus to the other."""
    m = lib.fields_mod(fam)
    out = []
    for step, mc in enumerate(list(mcs) + [mcs[0]]):
        mc = tuple(mc)
        base = m.FQ2 if len(mc) == 2 else m.FQ12
        attr = "FQ2_MODULUS_COEFFS" if len(mc) == 2 else "FQ12_MODULUS_COEFFS"
        cls = type("Seq_%s_%d_%d" % (fam, p, step), (base,), {"field_modulus": p, attr: mc})
        cfg = lib.Cfg(fam, p, mc, cls=cls)
        F = cfg.F
        for xm in xs:
            xm = tuple(xm)[:len(mc)] + (0,) * max(0, len(mc) - len(xm))
            for ym in xs[:3]:
                ym = tuple(ym)[:len(mc)] + (0,) * max(0, len(mc) - len(ym))
                got = fl.run_op(cfg, "mul", cfg.lib(xm), cfg.lib(ym))
                if got != ("ok", F.mul(xm, ym)):
                    out.append((step, mc, "mul", [xm, ym], ("ok", F.mul(xm, ym)), got))
            if not F.is_zero(xm):
                got = fl.run_op(cfg, "inv", cfg.lib(xm))
                if got != ("ok", F.inv(xm)):
                    out.append((step, mc, "inv", [xm], ("ok", F.inv(xm)), got))
            got = fl.run_op(cfg, "pow", cfg.lib(xm), 5)
            if got != ("ok", F.pow(xm, 5)):
                out.append((step, mc, "pow", [xm], ("ok", F.pow(xm, 5)), got))
    return out


def task_moduli_seq(a, env):
    fam, p = a["fam"], a["p"]
    r = R("moduli-sequences:%s" % fam)
    xs = a["xs"]
    if a.get("subsub"):
        for (p1, mc1, p2, mc2) in a["subsub"]:
            bad = subsub_case(fam, p1, mc1, p2, mc2, xs)
            r.ev += 30
            r.transitions += 3
            r.dk.add(("subsub", p1, tuple(mc1), p2, tuple(mc2)))
            for (step, cfgd, op, args, exp, got) in bad[:1]:
                r.viol("C08:%s:FQ2:subclass-of-subclass:%s" % (fam, op), ME + ":replay_subsub",
                       {"fam": fam, "p1": p1, "mc1": list(mc1), "p2": p2, "mc2": list(mc2), "xs": xs}, exp, got,
                       note="step %d (%s) of A, B(A), A" % (step, cfgd))
    for pair in a["pairs"]:
        bad = seq_case(fam, p, pair, xs)
        r.ev += 3 * len(xs) * 3
        r.transitions += 3
        r.dk.add((p, tuple(map(tuple, pair))))
        for (step, mc, op, args, exp, got) in bad[:1]:
            r.viol("C08:%s:FQ%d:modulus-sequence:%s" % (fam, len(mc), op), ME + ":replay_seq",
                   {"fam": fam, "p": p, "pair": [list(m) for m in pair], "xs": xs}, exp, got,
                   note="step %d (modulus %s) of the sequence A, B, A" % (step, list(mc)))
    r.states = len(a["pairs"])
    r.traces = len(a["pairs"])
    if a.get("sample"):
        r.sample({"family": fam, "p": p, "sequence": "class(mc A) -> class(mc B) -> class(mc A)", "pairs": len(a["pairs"]),
                  "first": a["pairs"][0]})
    return r


def replay_subsub(a):
    bad = subsub_case(a["fam"], a["p1"], a["mc1"], a["p2"], a["mc2"], a["xs"])
    if not bad:
        return None
    step, cfgd, op, args, exp, got = bad[0]
    return {"step": step, "field": cfgd, "op": op, "args": args, "expected": exp, "observed": got}


def replay_seq(a):
    bad = seq_case(a["fam"], a["p"], [tuple(m) for m in a["pair"]], a["xs"])
    if not bad:
        return None
    step, mc, op, args, exp, got = bad[0]
    return {"step": step, "modulus": list(mc), "op": op, "args": args, "expected": exp, "observed": got}


# exhaustive inverse sweeps (all residues of all primes < 1000 [4000]; window around p/phi at full size)
def task_inv_sweep(a, env):
    from . import C14
    return C14.task_inv_sweep(a, env)


def task_inv_phi(a, env):
    from . import C14
    return C14.task_inv_phi(a, env)


def task_errpath_tables(a, env):
    from . import C14
    return C14.task_errpath_tables(a, env)


def composite(cfg, op, args):
    """the composite (library-only) assertions; returns True if they hold"""
    xm = fl.el_from(cfg, args["x"])
    try:
        x = cfg.lib(xm)
        if op == "x*inv(x)==1":
            ix = x.inv() if cfg.mc is not None else 1 / x
            return bool((x * ix == cfg.cls.one()) if not cfg.F.is_zero(xm) else (ix == cfg.cls.zero()))
        if op == "(x/y)*y==x":
            y = cfg.lib(fl.el_from(cfg, args["y"]))
            return bool((x / y) * y == x)
        if op == "axioms":
            y, z = cfg.lib(fl.el_from(cfg, args["y"])), cfg.lib(fl.el_from(cfg, args["z"]))
            return bool((x + y) + z == x + (y + z) and (x * y) * z == x * (y * z)
                        and x * (y + z) == x * y + x * z and x + y == y + x and x * y == y * x
                        and (x - y) + y == x)
        if op == "construct":
            p = cfg.p
            if cfg.mc is None:
                return all(fl.canon(cfg, cfg.cls(f)) == ("ok", xm) for f in (xm + p, xm - p, xm + 7 * p, cfg.lib(xm)))
            return all(fl.canon(cfg, cfg.cls(f)) == ("ok", xm)
                       for f in ([c + p for c in xm], tuple(c - p for c in xm), [c + 5 * p for c in xm]))
        if op == "eq-int":
            return fl.run_op(cfg, "eq", x, args["y"]) == ("ok", xm == args["y"])
    except Exception:  # noqa: BLE001
        return False
    raise ValueError(op)


COMPOSITE = ("x*inv(x)==1", "(x/y)*y==x", "axioms", "construct", "eq-int")


def replay_case(cfg, op, args):
    if op.startswith("derived-from-used-object:"):
        for lbl, exp, got in chain_case(cfg, cfg.family, fl.el_from(cfg, args["x"]), fl.el_from(cfg, args["y"])):
            if lbl == op.split(":", 1)[1] and exp != got:
                return {"expected": exp, "observed": got}
        return None
    if op in COMPOSITE:
        return None if composite(cfg, op, args) else {"observed": "%s fails" % op}
    xm = None if args.get("x") is None else fl.el_from(cfg, args["x"])
    x = None if xm is None else cfg.lib(xm)
    ym = fl.unjint(args.get("y"))
    y = ym
    if args.get("yk") == "elem":
        ym = fl.el_from(cfg, ym)
        y = cfg.lib(ym)
    exp = fl.model_op(cfg, op, xm, ym)
    for yf in (fl.int_forms(y) if args.get("yk") in ("int", "exp") else [y]):
        got = fl.run_op(cfg, op, x, yf)
        if got != exp:
            return {"expected": exp, "observed": got, "operand_type": type(yf).__name__}
    return None


def replay_op(a):
    return replay_case(fl.cfg_of(a, a["fam"]), a["op"], a["args"])


# ------------------------------------------------------------------ full size
def full_cfgs(curve):
    from .C07_full import field_cfg
    return {(fam, g): field_cfg(curve, g, fam) for fam in ("ref", "opt") for g in ("E1", "E2", "E12")}


def full_elements(cfg, env, tag):
    p = cfg.p
    g = rng(env, "full:%s" % tag)
    alpha = [0, 1, 2, p - 1, p - 2, (p - 1) // 2, (p + 1) // 2, g.randrange(p), g.randrange(p)]
    # machine-word structure: single high words, zero low / middle words, all-ones words
    limbs = [2 ** 64, 2 ** 128 - 1, (2 ** 64 - 1) << 64, 2 ** 192 + 1, p - 2 ** 128, (p >> 64) << 64]
    if cfg.mc is None:
        return alpha + limbs
    alpha = alpha[:7] + limbs[:3] + alpha[7:]
    k = len(cfg.mc)
    if k == 2:
        return [(x, y) for x in alpha for y in alpha]
    out = [tuple([0] * 12), tuple([1] + [0] * 11)]
    vals = [1, p - 1, alpha[-1]]
    for i in range(12):
        for v in vals[:2] if i % 3 else vals:
            t = [0] * 12
            t[i] = v
            out.append(tuple(t))
    for i, j in ((0, 6), (1, 7), (0, 11), (5, 6), (2, 3)):
        for v in vals:
            t = [0] * 12
            t[i], t[j] = v, vals[(vals.index(v) + 1) % 3]
            out.append(tuple(t))
    for _ in range(3):
        out.append(tuple(g.randrange(p) for _ in range(12)))
    seen, res = set(), []
    for t in out:
        if t not in seen:
            seen.add(t)
            res.append(t)
    return res


def task_full(a, env):
    curve, grp, fam = a["curve"], a["group"], a["fam"]
    cfg = full_cfgs(curve)[(fam, grp)]
    F = cfg.F
    p = cfg.p
    d = params.curves()[curve]
    kind = {"E1": "FQ", "E2": "FQ2", "E12": "FQ12"}[grp]
    r = R("full:%s:%s:%s" % (curve, fam, kind))
    quick = env["tier"] == "quick"
    els = full_elements(cfg, env, "%s:%s" % (curve, grp))
    if kind == "FQ12" and fam == "ref" and quick:
        els = els[:14] + els[-2:]
    L = {v: cfg.lib(v) for v in els}
    r.states += len(els)

    def bad(op, args, exp, got):
        r.viol("C08:%s:%s:%s:%s" % (curve, fam, kind, op), ME + ":replay_full",
               {"curve": curve, "group": grp, "fam": fam, "op": op, "args": args}, exp, got)

    def check(op, xm, ym=None, yk=None):
        r.ev += 1
        r.transitions += 1
        x = None if xm is None else L[xm]
        y = L[ym] if yk == "elem" else ym
        got = fl.run_op(cfg, op, x, y)
        exp = fl.model_op(cfg, op, xm, ym)
        if got != exp:
            bad(op, {"x": None if xm is None else fl.el_json(cfg, xm),
                     "y": fl.el_json(cfg, ym) if yk == "elem" else fl.jint(ym), "yk": yk}, exp, got)

    check("one", None)
    check("zero", None)
    exps = [0, 1, 2, 3, p - 2, p, p * p - 1, (p ** 12 - 1) // d["r"], 2 ** 4400 + 1]
    slow = kind == "FQ12" and fam == "ref"
    for i, xm in enumerate(els):
        check("neg", xm)
        if not slow or i < 12 or not quick:
            check("inv", xm)
        for n in exps[:6]:
            if slow and n > 3 and i >= 4:
                continue
            check("pow", xm, n, "exp")
        if i in (2, len(els) - 1) or (not quick and not slow):
            for n in exps[6:]:
                check("pow", xm, n, "exp")
    r.dn += len(els)
    # int operands
    ks = [0, 1, -1, p, p + 1, -p - 1, 2 * p + 3, 2 ** 400, -p, 2 * p, p * p, -3 * p]
    int_ops = (["add", "sub", "mul", "div", "radd", "rsub", "rmul", "rdiv"] if cfg.mc is None
               else ["mul", "div", "rmul"])
    for xm in els[:12]:
        for k in ks:
            for op in int_ops:
                check(op, xm, k, "int")
    if cfg.mc is None:
        for xm in els:
            for k in (0, 1, p - 1, els[-1]):
                r.ev += 1
                got = fl.run_op(cfg, "eq", L[xm], k)
                if got != ("ok", xm == k):
                    bad("eq-int", {"x": xm, "y": k}, ("ok", xm == k), got)
    # binary: all pairs (ref FQ12: a subset, its multiplication costs ~0.6 ms, division ~10 ms)
    B = els if not slow else (els[:8] + els[-1:] if quick else els[:20] + els[-2:])
    bin_ops = ["add", "sub", "mul", "div", "eq", "ne"] + (["lt", "gt"] if cfg.mc is None else [])
    for xm in (els if not slow or not quick else els[:10] + els[-2:]):
        for ym in B:
            for op in bin_ops:
                check(op, xm, ym, "elem")
        r.dn += len(B)
    # triples: axioms directly
    T = els[:12] if not slow else els[2:6] + els[-1:]
    if kind == "FQ2":
        T = [els[i] for i in (0, 1, 9, 10, 13, 40, 44, 70, 80)]
    for am, bm, cm in itertools.product(T, repeat=3):
        x, y, z = L[am], L[bm], L[cm]
        r.ev += 1
        try:
            ok = ((x + y) + z == x + (y + z) and (x * y) * z == x * (y * z)
                  and x * (y + z) == x * y + x * z and x * y == y * x)
        except Exception:  # noqa: BLE001
            ok = False
        if not ok:
            bad("axioms", {"x": fl.el_json(cfg, am), "y": fl.el_json(cfg, bm), "z": fl.el_json(cfg, cm)}, True, False)
    r.dn += len(T) ** 3
    r.sample({"curve": curve, "family": fam, "class": kind, "elements": len(els),
              "exponents": "0,1,2,3,p-2,p,p^2-1,(p^12-1)/r,2^4400+1"})
    return r


def replay_full(a):
    return replay_case(full_cfgs(a["curve"])[(a["fam"], a["group"])], a["op"], a["args"])


def run(ctx):
    zp.selfcheck()
    ctx.rule = (
        "tiny fields: complete operator tables (every element, every ordered pair, listed "
        "triples) of FQ over p<=13, FQ2 over every irreducible quadratic, FQ12 over two "
        "irreducible degree-12 moduli of GF(2), GF(3), GF(5), GF(7); every result must equal "
        "the model and be stored reduced (0 <= c < p, exact class). A case is one "
        "(operation, operands) tuple; enumerated without repetition."
    )
    ctx.assumptions = ["zp reference model (exhaustively self-checked)",
                       "comparison with unreduced ints by ==/< is outside the statement (DESIGN 7.1)"]
    tasks = []
    fq_p = [2, 3, 5, 7, 11, 13]
    for fam in ("ref", "opt"):
        for p in fq_p:
            tasks.append(("field", {"fam": fam, "p": p}))
    q_p = [2, 3, 5] if ctx.quick else [2, 3, 5, 7, 11, 13]
    nquad = 0
    for p in [2, 3, 5, 7, 11, 13]:
        mods = fl.quadratics(p)
        if p not in q_p:
            # quick: two moduli with m1 == 0 and two with m1 != 0 (p = 7), one each above
            n = 2 if p == 7 else 1
            mods = [m for m in mods if m[1] == 0][:n] + [m for m in mods if m[1] != 0][:n]
        elif p >= 11:
            # thorough: every irreducible quadratic for p <= 7; ten [six] of each kind for p = 11 [13] (all of them cost hours)
            n = 10 if p == 11 else 6
            mods = [m for m in mods if m[1] == 0][:n] + [m for m in mods if m[1] != 0][:n]
        for mc in mods:
            nquad += 1
            for fam in ("ref", "opt"):
                tasks.append(("field", {"fam": fam, "p": p, "mc": list(mc), "Tcap": 25 if p <= 5 else 8}))
    ctx.bounds["fq_primes"] = fq_p
    ctx.bounds["fq2_moduli"] = nquad
    d12 = {}
    for p in (2, 3, 5, 7):
        d12[p] = fl.deg12_moduli(p)
        for mc in d12[p]:
            for fam in ("ref", "opt"):
                if ctx.quick:
                    if p == 2 and fam == "opt":
                        spec = {"A": "all", "B": "structured:4", "Bmax": 10}
                    elif fam == "opt":
                        spec = {"A": "structured:100", "B": "structured:4", "Bmax": 14}
                    else:
                        spec = {"A": "structured:12", "B": "structured:4", "Bmax": 8, "Amax": 120}
                else:
                    # (all 4096^2 pairs of GF(2^12) cost hours in pure Python: every element against a
                    # structured set of 300 right operands instead; every unary entry is complete)
                    if p == 2:
                        spec = ({"A": "all", "B": "structured:200", "Bmax": 300} if fam == "opt"
                                else {"A": "all", "B": "structured:20", "Bmax": 30})
                    elif p == 3:
                        spec = {"A": "structured:1500", "B": "structured:10", "Bmax": 40}
                    else:
                        spec = {"A": "structured:300", "B": "structured:10", "Bmax": 30}
                spec.update({"fam": fam, "p": p, "mc": list(mc), "Tcap": 5})
                tasks.append(("field", spec))
    ctx.bounds["fq12_moduli"] = {str(p): [list(m) for m in v] for p, v in d12.items()}
    hi_p = 1000 if ctx.quick else 4000
    for lo in range(2, hi_p, 125):
        tasks.append(("inv_sweep", {"lo": lo, "hi": min(hi_p, lo + 125), "sample": lo == 2}))
    tasks.append(("inv_phi", {"w": 3000 if ctx.quick else 20000}))
    for (p, mc) in ((5, list(fl.quadratics(5)[1])), (7, [1, 0]), (3, list(fl.deg12_moduli(3)[1]))):
        tasks.append(("errpath_tables", {"p": p, "mc": mc}))
    # exponent sweep around powers of two, bit lengths 40 .. 4500 (thorough: .. 9000)
    hi_k = 4500 if ctx.quick else 9000
    for fam in ("ref", "opt"):
        for (p, mc, x) in ((7, [1, 0], None), (5, list(fl.quadratics(5)[1]), None)):
            step = 280 if ctx.quick else 140
            for lo in range(40, hi_k, step):
                # every k in a window of 24 at the start of each stride, and every k in [2930, 3030)
                tasks.append(("pow_sweep", {"fam": fam, "p": p, "mc": mc, "x": x, "lo": lo, "hi": lo + 24,
                                            "extra": list(range(lo + 24, min(lo + step, hi_k), 16)), "sample": lo == 40}))
            for lo in range(2930, 3030, 25):
                tasks.append(("pow_sweep", {"fam": fam, "p": p, "mc": mc, "x": x, "lo": lo, "hi": lo + 25}))
    # histories: two classes over the same prime with different moduli in one process
    for fam in ("ref", "opt"):
        for p in ([3, 5, 7] if ctx.quick else [3, 5, 7, 11]):
            mods = [list(m) for m in fl.quadratics(p)]
            pairs = [[a, b] for a in mods for b in mods if a != b]
            if ctx.quick and len(pairs) > 60:
                pairs = pairs[::len(pairs) // 60]
            xs = [[0, 1], [1, 1], [2, p - 1], [p - 1, 3 % p]]
            for i in range(0, len(pairs), 30):
                tasks.append(("moduli_seq", {"fam": fam, "p": p, "pairs": pairs[i:i + 30], "xs": xs, "sample": i == 0}))
        q7, q11, q5 = fl.quadratics(7), fl.quadratics(11), fl.quadratics(5)
        subsub = [(7, list(q7[0]), 11, list(q11[0])), (11, list(q11[1]), 7, list(q7[2])), (5, list(q5[0]), 7, list(q7[-1])),
                  (7, list(q7[1]), 7, list(q7[3]))]
        tasks.append(("moduli_seq", {"fam": fam, "p": 7, "pairs": [], "xs": [[0, 1], [1, 1], [2, 6], [3, 4]], "subsub": subsub}))
        for p in (2, 3):
            a12, b12 = [list(m) for m in d12[p]]
            xs = [[0, 1] + [0] * 10, [1] * 12, [1, 0, 1, 0, 0, 1] + [0] * 5 + [1]]
            tasks.append(("moduli_seq", {"fam": fam, "p": p, "pairs": [[a12, b12], [b12, a12]], "xs": xs}))
    full = []
    for curve in ("bn128", "bls12_381"):
        for grp in ("E12", "E2", "E1"):
            for fam in ("ref", "opt"):
                full.append(("full", {"curve": curve, "group": grp, "fam": fam}))
    # slow tasks first
    tasks.sort(key=lambda t: -(len(t[1].get("mc") or []) * 10 + t[1].get("p", 0)))
    ctx.pmap(ME, full + tasks)

"""C11 - point (de)serialisation is a canonical bijection in the ZCash format.

(A) points -> words -> points: special and generic points of E(Fp) and E'(Fp2) (infinity in
    every representative, generators, subgroup and non-subgroup points, (0, +-2), points whose y
    sits at the boundary of the sign rule, G2 points with y.c1 = 0 / y.c0 = 0), each in several
    projective scalings; compress == model encoder; decompress(compress(P)) == P; byte helpers.
(B) words -> points -> words, complete product: 8 flag combinations x x-classes (x second-word
    classes for G2): accepted => model decodes the same point and re-compression is the input;
    model rejects => ValueError precisely.  Same through pubkey_to_G1 / signature_to_G2.
(C) thorough: every single-bit flip of valid encodings.
Oracle: mc.model.zcash (anchored to the published generator encodings).
"""
import importlib

from ..core import R, rng
from .. import lib
from ..model import bls as bls_model
from ..model import params, zcash
from . import C07_full

LEVEL = "exploration"
ME = "mc.props.C11"
P = params.BLS_P
FLAGS = [0, 1, 2, 3, 4, 5, 6, 7]  # (c b a) as a 3-bit number


def _pc():
    return importlib.import_module("py_ecc.bls.point_compression")


def _g2p():
    return importlib.import_module("py_ecc.bls.g2_primitives")


def _cfg(group):
    return C07_full.field_cfg("bls12_381", group, "opt")


def _dec_outcome(f, arg, group, twice=True):
    """('ok', model point | None) | ('reject',) | ('raise-other', type) | ('malformed', ..);
    every decoder call is made twice in a row on the same input: the second answer must be the
    first (a decoder that remembers its last input must not answer from a failed attempt)"""
    first = _dec_outcome1(f, arg, group)
    if twice:
        second = _dec_outcome1(f, arg, group)
        if second != first:
            return ("second-call-differs", [first, second])
    return first


_RAW = {}


def _dec_outcome1(f, arg, group):
    _RAW.pop("pt", None)
    try:
        pt = f(arg)
        _RAW["pt"] = pt
    except ValueError:
        return ("reject",)
    except Exception as e:  # noqa: BLE001
        return ("raise-other", type(e).__name__)
    try:
        return ("ok", lib.opt_norm(_cfg(group), pt))
    except Exception as e:  # noqa: BLE001
        return ("malformed", type(e).__name__)


def _enc_outcome(f, rep):
    try:
        w = f(rep)
    except Exception as e:  # noqa: BLE001
        return ("raise", type(e).__name__)
    if isinstance(w, tuple):
        if len(w) == 2 and all(type(int(x)) is int and isinstance(x, int) for x in w):
            return ("ok", (int(w[0]), int(w[1])))
        return ("malformed", repr(w)[:80])
    if isinstance(w, int):
        return ("ok", int(w))
    if isinstance(w, (bytes, bytearray)):
        return ("ok", bytes(w))
    return ("malformed", repr(w)[:80])


# ------------------------------------------------------------------ (A) points
def _point_domain(group, env, thorough):
    """[(label, model point)]"""
    g = rng(env, "pts:" + group)
    r = params.BLS_R
    if group == "E1":
        E, G = zcash.E1, params.bls_g1()
        dom = [("G", G), ("5G", E.mul(G, 5)), ("(r-1)G", E.mul(G, r - 1)), ("kG", E.mul(G, g.randrange(2, r)))]
        for Q in E.lift_x(0):
            dom.append(("x=0", Q))
        ys = []
        for j in range(0, 12 if not thorough else 40):
            ys += [zcash.HALF - j, zcash.HALF + 1 + j]
        for Q in zcash.g1_points_with_y(ys)[: 4 if not thorough else 12]:
            dom.append(("y-at-sign-boundary", Q))
        for Q in zcash.g1_points_with_y(list(range(1, 8)))[:2]:
            dom.append(("small-y", Q))
            dom.append(("y just below p", E.neg(Q)))
        for Q in zcash.g1_points_with_y([P - t for t in range(1, 30)])[:2]:
            dom.append(("y just below p", Q))
        x = 1
        n = 0
        while n < (3 if not thorough else 8):
            for Q in E.lift_x(x):
                dom.append(("from-x", Q))
                n += 1
            x += 1
    else:
        E, G = zcash.E2, params.bls_g2()
        dom = [("G", G), ("5G", E.mul(G, 5)), ("(r-1)G", E.mul(G, r - 1)), ("kG", E.mul(G, g.randrange(2, r)))]
        ys = [(t, 0) for t in range(1, 14)] + [(zcash.HALF - j, 0) for j in range(6)] + \
             [(zcash.HALF + 1 + j, 0) for j in range(6)]
        got = zcash.g2_points_with_y(ys)
        for Q in got[: 6 if not thorough else 20]:
            dom.append(("y.c1=0", Q))
            dom.append(("y.c1=0", E.neg(Q)))
        ys = [(0, t) for t in range(1, 14)]
        for Q in zcash.g2_points_with_y(ys)[: 2 if not thorough else 8]:
            dom.append(("y.c0=0", Q))
        # y.c1 exactly at the sign boundary (p-1)/2 and (p+1)/2, with y.c0 = 0 and y.c0 != 0
        ys = [(a_, zcash.HALF + d_) for d_ in (0, 1) for a_ in range(0, 24)]
        got_b = zcash.g2_points_with_y(ys)
        for d_ in (0, 1):
            sel_b = [Q for Q in got_b if Q[1][1] == zcash.HALF + d_][: 2 if not thorough else 6]
            for Q in sel_b:
                dom.append(("y.c1=(p%s1)/2" % ("-" if d_ == 0 else "+"), Q))
        ys = [(zcash.HALF + d_, 0) for d_ in (0, 1, -1, 2)]
        for Q in zcash.g2_points_with_y(ys):
            dom.append(("y.c1=0,y.c0-at-boundary", Q))
        c0 = 0
        n = 0
        while n < (4 if not thorough else 10):
            for im in (0, 1, P - 1):
                for Q in E.lift_x((c0, im))[:2]:
                    dom.append(("from-x(c1=%s)" % ("0" if im == 0 else "nz"), Q))
                    n += 1
            c0 += 1
    return dom


def _inf_reps(group):
    cfg = _cfg(group)
    F = cfg.F
    reps = [(F.one, F.one, F.zero), (F.zero, F.one, F.zero), (F.el(3), F.el(5), F.zero),
            (F.zero, F.zero, F.zero)]
    out = [tuple(cfg.lib(c) for c in t) for t in reps]
    opt = importlib.import_module("py_ecc.optimized_bls12_381")
    out.append(opt.Z1 if group == "E1" else opt.Z2)
    return out


def pt_case(group, Pm, lam, inf_i=None, fq_coeffs=False):
    """list of (what, expected, observed) mismatches for one representative"""
    pc, g2p = _pc(), _g2p()
    cfg = _cfg(group)
    rep = _inf_reps(group)[inf_i] if Pm is None else lib.opt_pt(cfg, Pm, lam, fq_coeffs)
    bad = []
    if group == "E1":
        word = zcash.encode_g1(Pm)
        got = _enc_outcome(pc.compress_G1, rep)
        if got != ("ok", word):
            bad.append(("compress_G1", hex(word), got))
        back = _dec_outcome(pc.decompress_G1, word, group)
        if back != ("ok", Pm):
            bad.append(("decompress_G1(compress_G1(P))", Pm, back))
        bw = word.to_bytes(48, "big")
        gb = _enc_outcome(g2p.G1_to_pubkey, rep)
        if gb != ("ok", bw):
            bad.append(("G1_to_pubkey", bw.hex(), gb))
        back = _dec_outcome(g2p.pubkey_to_G1, bw, group)
        if back != ("ok", Pm):
            bad.append(("pubkey_to_G1(G1_to_pubkey(P))", Pm, back))
    else:
        word = zcash.encode_g2(Pm)
        got = _enc_outcome(pc.compress_G2, rep)
        if got != ("ok", word):
            bad.append(("compress_G2", [hex(w) for w in word], got))
        back = _dec_outcome(pc.decompress_G2, word, group)
        if back != ("ok", Pm):
            bad.append(("decompress_G2(compress_G2(P))", Pm, back))
        bw = word[0].to_bytes(48, "big") + word[1].to_bytes(48, "big")
        gb = _enc_outcome(g2p.G2_to_signature, rep)
        if gb != ("ok", bw):
            bad.append(("G2_to_signature", bw.hex(), gb))
        back = _dec_outcome(g2p.signature_to_G2, bw, group)
        if back != ("ok", Pm):
            bad.append(("signature_to_G2(G2_to_signature(P))", Pm, back))
    return bad


def _key_pt(group, label, what, Pm=None):
    g = "G1" if group == "E1" else "G2"
    x_is_zero = Pm is not None and (Pm[0] == 0 if group == "E1" else tuple(Pm[0]) == (0, 0))
    if x_is_zero and ("decompress" in what or "pubkey_to_G1" in what or "signature_to_G2" in what):
        return "C11:%s:x=0" % g
    return "C11:%s:roundtrip:%s:%s" % (g, what.split("(")[0], label.split("(")[0])


def task_points(a, env):
    group = a["group"]
    r = R("points->words->points:%s" % ("G1" if group == "E1" else "G2"))
    thorough = env["tier"] == "thorough"
    dom = _point_domain(group, env, thorough)
    cfg = _cfg(group)
    lams = C07_full.scalings(cfg, env, "C11" + group)
    sel = dom[a["lo"]::a["step"]]
    if a["lo"] == 0:
        for i in range(len(_inf_reps(group))):
            r.ev += 4
            r.dk.add(("O", i))
            for what, exp, got in pt_case(group, None, None, i):
                r.viol("C11:%s:infinity:%s" % ("G1" if group == "E1" else "G2", what.split("(")[0]),
                       ME + ":replay_pt", {"group": group, "idx": None, "li": 0, "inf": i, "seed": env["seed"],
                                           "tier": env["tier"]}, exp, got)
    for (label, Pm) in sel:
        for li, lam in enumerate(lams):
            # representatives: int coefficients for every scaling; for G2 additionally FQ-object
            # coefficients in the affine (z = 1) and in one scaled form
            for fqc in ((False, True) if group == "E2" and li in (0, 1, 3, 4) else (False,)):
                r.ev += 4
                r.dk.add((label, Pm[0] if group == "E1" else Pm[0][0], li, fqc))
                for what, exp, got in pt_case(group, Pm, lam, None, fqc):
                    r.viol(_key_pt(group, label, what, Pm) + (":fq-coefficients" if fqc else ""), ME + ":replay_pt",
                           {"group": group, "idx": dom.index((label, Pm)), "li": li, "inf": None, "fqc": fqc,
                            "seed": env["seed"], "tier": env["tier"]}, exp, got, note=what)
    if a["lo"] == 0:
        r.sample({"group": group, "labels": sorted(set(l for l, _ in dom)), "points": len(dom),
                  "scalings": len(lams), "infinity_representatives": len(_inf_reps(group))})
    return r


def replay_pt(a):
    env = {"seed": a["seed"], "pid": "C11", "tier": a["tier"]}
    group = a["group"]
    if a["idx"] is None:
        bad = pt_case(group, None, None, a["inf"])
    else:
        dom = _point_domain(group, env, a["tier"] == "thorough")
        lams = C07_full.scalings(_cfg(group), env, "C11" + group)
        bad = pt_case(group, dom[a["idx"]][1], lams[a["li"]], None, a.get("fqc", False))
    return None if not bad else {"mismatches": [(w, e, g) for w, e, g in bad]}


# ------------------------------------------------------------------ (B) words
def _x_classes_g1(env):
    g = rng(env, "x:G1")
    E = zcash.E1
    G = params.bls_g1()
    xs = [("0", 0), ("1", 1), ("2", 2), ("p-1", P - 1), ("p", P), ("p+1", P + 1), ("2^381-1", (1 << 381) - 1),
          ("x(G)", G[0]), ("x(kG)", E.mul(G, g.randrange(2, params.BLS_R))[0])]
    x = 3
    found = {"nonsub": 0, "off": 0}
    while min(found.values()) < 2:
        pts = E.lift_x(x)
        if pts and found["nonsub"] < 2 and E.mul(pts[0], params.BLS_R) is not None:
            xs.append(("on-curve-non-subgroup", x))
            found["nonsub"] += 1
        if not pts and found["off"] < 2:
            xs.append(("off-curve", x))
            found["off"] += 1
        x += 1
    for Q in zcash.g1_points_with_y([zcash.HALF, zcash.HALF + 1, zcash.HALF - 1, zcash.HALF + 2])[:2]:
        xs.append(("x(y at sign boundary)", Q[0]))
    # coordinates whose leading byte equals the leading byte of p (0x1a): the largest on-curve
    # x below p and the smallest on-curve x at or above 0x1a * 2^376; and just below that boundary
    x = P - 1
    while not E.lift_x(x):
        x -= 1
    xs.append(("largest on-curve x < p", x))
    x = 0x1A << 376
    while not E.lift_x(x):
        x += 1
    xs.append(("smallest on-curve x >= 0x1a<<376", x))
    x = (0x1A << 376) - 1
    while not E.lift_x(x):
        x -= 1
    xs.append(("largest on-curve x < 0x1a<<376", x))
    return xs


def word_case_g1(z, via_bytes):
    pc, g2p = _pc(), _g2p()
    exp = zcash.decode_g1(z)
    if via_bytes:
        got = _dec_outcome(g2p.pubkey_to_G1, z.to_bytes(48, "big"), "E1")
    else:
        got = _dec_outcome(pc.decompress_G1, z, "E1")
    return _judge(exp, got, lambda rep: _enc_outcome(pc.compress_G1, rep), z, "E1")


def _judge(exp, got, recompress, word, group):
    """None or (class, expected, observed).  Accepted => the model accepts the same point and
    re-compression gives the input; model rejects => ValueError precisely."""
    if got[0] == "ok":
        if exp[0] != "ok":
            return ("accepts-invalid", exp, got)
        if exp[1] != got[1]:
            return ("decodes-to-other-point", exp, got)
        cfg = _cfg(group)
        if got[1] is None:
            opt = importlib.import_module("py_ecc.optimized_bls12_381")
            rep = opt.Z1 if group == "E1" else opt.Z2
        else:
            rep = lib.opt_pt(cfg, got[1])
        back = recompress(rep)
        if back != ("ok", word):
            return ("not-canonical", word, back)
        # and the very object the decoder returned (not a triple rebuilt from its value)
        if _RAW.get("pt") is not None:
            back = recompress(_RAW["pt"])
            if back != ("ok", word):
                return ("not-canonical:returned-object", word, back)
        return None
    if got[0] == "reject":
        if exp[0] == "ok":
            return ("rejects-valid", exp, got)
        return None
    return ("wrong-exception" if got[0] == "raise-other" else "malformed-result", exp, got)


def task_words_g1(a, env):
    r = R("words->points->words:G1")
    xs = _x_classes_g1(env)
    for (xl, x) in xs:
        for fl in FLAGS:
            z = (fl << 381) | (x & ((1 << 381) - 1)) if x < (1 << 381) else None
            if z is None:
                continue
            for via in (False, True):
                bad = word_case_g1(z, via)
                r.ev += 1
                r.dk.add((xl, fl, via))
                if bad:
                    key = "C11:G1:x=0" if (x == 0 and bad[0] == "rejects-valid") else \
                        "C11:G1:word:%s:flags=%d%d%d" % (bad[0], fl >> 2, (fl >> 1) & 1, fl & 1)
                    r.viol(key, ME + ":replay_word", {"group": "E1", "z": [hex(z)], "bytes": via},
                           bad[1], bad[2], note=xl)
    r.sample({"x_classes": [l for l, _ in xs], "flags": "all 8", "via": ["decompress_G1", "pubkey_to_G1"]})
    return r


def _word_classes_g2(env):
    g = rng(env, "x:G2")
    E = zcash.E2
    G = params.bls_g2()
    kG = E.mul(G, g.randrange(2, params.BLS_R))
    firsts = [("0", 0), ("1", 1), ("p-1", P - 1), ("p", P), ("p+1", P + 1), ("2^381-1", (1 << 381) - 1),
              ("x.c1(G)", G[0][1]), ("x.c1(kG)", kG[0][1])]
    y0 = zcash.g2_points_with_y([(3, 0), (5, 0), (7, 0), (11, 0)])[:1]
    for Q in y0:
        firsts.append(("x.c1(y.c1=0 point)", Q[0][1]))
    # a non-subgroup on-curve x and an off-curve x with small c1
    c0 = 0
    nons = off = None
    while nons is None or off is None:
        pts = E.lift_x((c0, 1))
        if pts and nons is None and E.mul(pts[0], params.BLS_R) is not None:
            nons = (c0, 1)
        if not pts and off is None:
            off = (c0, 1)
        c0 += 1
    seconds_for = {
        "x.c1(G)": [("matching", G[0][0]), ("mismatching", (G[0][0] + 1) % P)],
        "x.c1(kG)": [("matching", kG[0][0])],
        "1": [("non-subgroup", nons[0]), ("off-curve", off[0])],
    }
    for Q in y0:
        seconds_for["x.c1(y.c1=0 point)"] = [("matching", Q[0][0])]
    # coordinates with the leading byte of p in either word, on the curve by construction
    def on_curve_near(fix_c0, start, step):
        v = start
        while True:
            x = (fix_c0, v) if fix_c0 is not None else None
            if E.lift_x(x):
                return v
            v += step

    c1_hi = on_curve_near(1, P - 1, -1)          # x = 1 + c1*i, c1 the largest below p
    c1_b = on_curve_near(2, 0x1A << 376, 1)      # smallest c1 at or above 0x1a<<376
    firsts.append(("largest c1 < p (x.c0 = 1)", c1_hi))
    firsts.append(("smallest c1 >= 0x1a<<376 (x.c0 = 2)", c1_b))
    seconds_for["largest c1 < p (x.c0 = 1)"] = [("matching", 1)]
    seconds_for["smallest c1 >= 0x1a<<376 (x.c0 = 2)"] = [("matching", 2)]
    # and in the second word: x = c0 + 1*i with c0 at the boundaries
    v = P - 1
    while not E.lift_x((v, 1)):
        v -= 1
    w = 0x1A << 376
    while not E.lift_x((w, 1)):
        w += 1
    seconds_for["1"] = seconds_for["1"] + [("largest on-curve c0 < p", v), ("smallest on-curve c0 >= 0x1a<<376", w)]
    generic = [("0", 0), ("1", 1), ("p-1", P - 1), ("p", P), ("p+1", P + 1), ("2^381-1", (1 << 381) - 1),
               ("flag-a", G[0][0] | (1 << 381)), ("flag-b", G[0][0] | (1 << 382)), ("flag-c", G[0][0] | (1 << 383)),
               ("all-flags", G[0][0] | (7 << 381)), ("only-flag-c", 1 << 383)]
    return firsts, seconds_for, generic


def word_case_g2(z1, z2, via_bytes):
    pc, g2p = _pc(), _g2p()
    exp = zcash.decode_g2(z1, z2)
    if via_bytes:
        got = _dec_outcome(g2p.signature_to_G2, z1.to_bytes(48, "big") + z2.to_bytes(48, "big"), "E2")
    else:
        got = _dec_outcome(pc.decompress_G2, (z1, z2), "E2")
    return _judge(exp, got, lambda rep: _enc_outcome(pc.compress_G2, rep), (z1, z2), "E2")


def task_words_g2(a, env):
    r = R("words->points->words:G2")
    firsts, seconds_for, generic = _word_classes_g2(env)
    firsts = firsts[a["lo"]::a["step"]]
    for (l1, x1) in firsts:
        seconds = seconds_for.get(l1, []) + generic
        for (l2, z2) in seconds:
            for fl in FLAGS:
                z1 = (fl << 381) | x1
                for via in (False, True):
                    bad = word_case_g2(z1, z2, via)
                    r.ev += 1
                    r.dk.add((l1, l2, fl, via))
                    if bad:
                        r.viol("C11:G2:word:%s:flags=%d%d%d" % (bad[0], fl >> 2, (fl >> 1) & 1, fl & 1),
                               ME + ":replay_word", {"group": "E2", "z": [hex(z1), hex(z2)], "bytes": via},
                               bad[1], bad[2], note="%s / %s" % (l1, l2))
    if a["lo"] == 0:
        r.sample({"first_word_classes": [l for l, _ in firsts], "second_word_classes": [l for l, _ in generic],
                  "flags": "all 8"})
    return r


def replay_word(a):
    zs = [int(x, 16) for x in a["z"]]
    bad = word_case_g1(zs[0], a["bytes"]) if a["group"] == "E1" else word_case_g2(zs[0], zs[1], a["bytes"])
    return None if not bad else {"class": bad[0], "expected": bad[1], "observed": bad[2]}


# ------------------------------------------------------------------ (C) bit flips
def task_flips(a, env):
    group = a["group"]
    r = R("single-bit-flips:%s" % ("G1" if group == "E1" else "G2"))
    g = rng(env, "flip:%s:%d" % (group, a["k"]))
    r_ = params.BLS_R
    if group == "E1":
        Pm = zcash.E1.mul(params.bls_g1(), g.randrange(2, r_))
        z = zcash.encode_g1(Pm)
        for bit in range(a["lo"], 384, a["step"]):
            bad = word_case_g1(z ^ (1 << bit), bit % 2 == 0)
            r.ev += 1
            r.dk.add(bit)
            if bad:
                r.viol("C11:G1:flip:%s" % bad[0], ME + ":replay_word",
                       {"group": "E1", "z": [hex(z ^ (1 << bit))], "bytes": bit % 2 == 0}, bad[1], bad[2])
    else:
        Pm = zcash.E2.mul(params.bls_g2(), g.randrange(2, r_))
        z1, z2 = zcash.encode_g2(Pm)
        for bit in range(a["lo"], 768, a["step"]):
            w1, w2 = (z1 ^ (1 << (bit - 384)), z2) if bit >= 384 else (z1, z2 ^ (1 << bit))
            bad = word_case_g2(w1, w2, bit % 2 == 0)
            r.ev += 1
            r.dk.add(bit)
            if bad:
                r.viol("C11:G2:flip:%s" % bad[0], ME + ":replay_word",
                       {"group": "E2", "z": [hex(w1), hex(w2)], "bytes": bit % 2 == 0}, bad[1], bad[2])
    if a["lo"] == 0:
        r.sample({"group": group, "flipped_bits": "every %dth bit of a seeded valid encoding" % a["step"]})
    return r


# ------------------------------------------------------------------ square roots in FQ2 (the decoder's core)
def sqrt_values(env):
    g = rng(env, "sqrt")
    F = zcash.E2.F
    base = [(1, 0), (0, 1), (2, 0), (P - 1, 0), (0, P - 1), (1, 1), (P - 1, 1), (3, 5), ((P - 1) // 2, (P + 1) // 2),
            (2 ** 64, 0), (0, 2 ** 128 - 1), (4, 0), (0, 4), (P - 4, 0), (5, 0), (0, 5), (2, 2)]
    base += [(g.randrange(P), g.randrange(P)) for _ in range(12)]
    base += [(g.randrange(P), 0) for _ in range(3)] + [(0, g.randrange(P)) for _ in range(3)]
    vals = list(base) + [F.mul(b, b) for b in base]  # arbitrary values and guaranteed squares
    out, seen = [], set()
    for v in vals:
        if v not in seen and not F.is_zero(v):
            seen.add(v)
            out.append(v)
    return out


def sqrt_case(v):
    """modular_squareroot_in_FQ2: None iff the model finds no root; otherwise the root with the larger
    (imaginary, real) pair - the documented choice"""
    pc = _pc()
    f = getattr(pc, "modular_squareroot_in_FQ2", None)
    if f is None:
        return None
    cfg = _cfg("E2")
    F = zcash.E2.F
    rt = F.sqrt(v)
    if rt is None:
        exp = ("ok", None)
    else:
        a_, b_ = rt, F.neg(rt)
        exp = ("ok", a_ if (a_[1], a_[0]) > (b_[1], b_[0]) else b_)
    out = []
    for lbl, x in (("int-coefficients", cfg.lib(v)), ("fq-object-coefficients", cfg.lib_fq(v))):
        try:
            res = f(x)
            got = ("ok", None if res is None else cfg.mod(res))
        except Exception as e:  # noqa: BLE001
            got = ("raise", type(e).__name__)
        if got != exp:
            out.append((lbl, exp, got))
    return out or None


def task_sqrt(a, env):
    r = R("modular_squareroot_in_FQ2")
    vals = sqrt_values(env)
    hits = {"square": 0, "non-square": 0}
    for i, v in enumerate(vals):
        if i % a["step"] != a["lo"]:
            continue
        hits["square" if zcash.E2.F.sqrt(v) is not None else "non-square"] += 1
        bad = sqrt_case(v)
        r.ev += 2
        r.dk.add(v)
        for (lbl, exp, got) in bad or []:
            r.viol("C11:sqrt-FQ2:%s" % ("misses-root" if got == ("ok", None) else "wrong-root" if got[0] == "ok" else "raises"),
                   ME + ":replay_sqrt", {"v": [hex(c) for c in v]}, exp, got, note=lbl)
    r.notes["classes"] = hits
    if a["lo"] == 0:
        r.sample({"values": len(vals), "classes": "small / boundary / word-structured / seeded values and their squares"})
    return r


def replay_sqrt(a):
    bad = sqrt_case(tuple(int(c, 16) for c in a["v"]))
    return None if not bad else {"form": bad[0][0], "expected": bad[0][1], "observed": bad[0][2]}


# ------------------------------------------------------------------ (D) decoder histories
M61 = 2 ** 61 - 1  # ints that differ by a multiple of it have equal hash() in CPython


def collide_case(group, k, via_bytes):
    """history: a valid encoding is decoded, then words that differ from it by multiples of 2^61 - 1
    (equal hash(), different words); each is judged by the model like any other word"""
    r_ = params.BLS_R
    out = []
    if group == "E1":
        z = zcash.encode_g1(zcash.E1.mul(params.bls_g1(), k % r_))
        first = word_case_g1(z, via_bytes)
        if first:
            return [("valid", first)]
        for lbl, w in (("+M61", z + M61), ("-M61", z - M61), ("+M61<<64", z + (M61 << 64)), ("+M61*p-ish", z + M61 * (1 << 300)),
                       ("-M61<<200", z - (M61 << 200)), ("+3*M61", z + 3 * M61)):
            if 0 <= w < (1 << 384):
                bad = word_case_g1(w, via_bytes)
                if bad:
                    out.append((lbl, bad))
                if word_case_g1(z, via_bytes):
                    out.append((lbl + ":then-original", word_case_g1(z, via_bytes)))
    else:
        z1, z2 = zcash.encode_g2(zcash.E2.mul(params.bls_g2(), k % r_))
        first = word_case_g2(z1, z2, via_bytes)
        if first:
            return [("valid", first)]
        for lbl, (w1, w2) in (("z2+M61", (z1, z2 + M61)), ("z2-M61", (z1, z2 - M61)), ("z1+M61", (z1 + M61, z2)), ("z1-M61", (z1 - M61, z2)),
                              ("z2+M61<<320", (z1, z2 + (M61 << 320))), ("z2+M61*2^323", (z1, z2 + M61 * (1 << 323))),
                              ("both+M61", (z1 + M61, z2 + M61)), ("z2+2*M61", (z1, z2 + 2 * M61))):
            if 0 <= w1 < (1 << 384) and 0 <= w2 < (1 << 384):
                bad = word_case_g2(w1, w2, via_bytes)
                if bad:
                    out.append((lbl, bad))
                again = word_case_g2(z1, z2, via_bytes)
                if again:
                    out.append((lbl + ":then-original", again))
    return out


def task_collide(a, env):
    r = R("decode:words-with-equal-hash()-after-a-valid-word")
    for group in ("E1", "E2"):
        for k in a["ks"]:
            for via in (False, True):
                for lbl, bad in collide_case(group, k, via):
                    r.viol("C11:%s:after-valid-word:%s" % ("G1" if group == "E1" else "G2", bad[0]), ME + ":replay_collide",
                           {"group": group, "k": k, "bytes": via}, bad[1], bad[2], note=lbl)
                r.ev += 12
                r.dk.add((group, k, via))
    r.sample({"history": "decompress_G2((z1, z2)); decompress_G2((z1, z2 + 2^61 - 1)); decompress_G2((z1, z2)); ..."})
    return r


def replay_collide(a):
    out = collide_case(a["group"], a["k"], a["bytes"])
    return None if not out else {"step": out[0][0], "class": out[0][1][0], "expected": out[0][1][1], "observed": out[0][1][2]}


def sweep_case(group, n, via_bytes):
    """history: 4 anchor encodings are decoded, then n further distinct valid encodings; after 1, 2, 3, 4, 6,
    8, 12, 16, ... of them the anchors are decoded again.  Every decode must give the model's point
    (a bounded table of recent decodes must not serve a stale or displaced entry)."""
    pc, g2p = _pc(), _g2p()
    E, G = (zcash.E1, params.bls_g1()) if group == "E1" else (zcash.E2, params.bls_g2())
    pts, Pm = [], G
    for _ in range(n + 4):
        pts.append(Pm)
        Pm = E.add(Pm, G)
    if group == "E1":
        f = g2p.pubkey_to_G1 if via_bytes else pc.decompress_G1
        enc = (lambda Q: bls_model.g1_bytes(Q)) if via_bytes else zcash.encode_g1
    else:
        f = g2p.signature_to_G2 if via_bytes else pc.decompress_G2
        enc = (lambda Q: bls_model.g2_bytes(Q)) if via_bytes else zcash.encode_g2
    checkpoints = set()
    c = 1
    while c <= n:
        checkpoints |= {c, c + c // 2}
        c *= 2
    checkpoints.add(n)

    def dec(i):
        got = _dec_outcome1(f, enc(pts[i]), group)
        return None if got == ("ok", pts[i]) else (i, ("ok", "the model point #%d" % i), got)

    for i in range(4):
        bad = dec(i)
        if bad:
            return (0,) + bad
    for j in range(1, n + 1):
        bad = dec(3 + j)
        if bad:
            return (j,) + bad
        if j in checkpoints:
            for i in range(4):
                bad = dec(i)
                if bad:
                    return (j,) + bad
    return None


def task_sweep(a, env):
    r = R("decode:anchors-again-after-n-distinct-valid-encodings")
    for via in a["vias"]:
        bad = sweep_case(a["group"], a["n"], via)
        r.ev += a["n"] + 4 * 20
        r.dk.add((a["group"], via))
        if bad:
            r.viol("C11:%s:stale-decode-after-many-distinct" % ("G1" if a["group"] == "E1" else "G2"), ME + ":replay_sweep",
                   {"group": a["group"], "n": bad[0], "bytes": via}, bad[2], bad[3],
                   note="encoding #%d decoded after %d further distinct encodings" % (bad[1], bad[0]))
    r.sample({"group": a["group"], "n": a["n"], "history": "decode e0..e3, e4, e0..e3, e5, e0..e3, e6, e7, e0..e3, ..."})
    return r


def replay_sweep(a):
    bad = sweep_case(a["group"], a["n"], a["bytes"])
    return None if not bad else {"after": bad[0], "encoding": bad[1], "expected": bad[2], "observed": bad[3]}


def run(ctx):
    ctx.rule = ("(A) one case per (point, scaling, function); (B) one case per (flags, x class, second-word "
                "class, entry point); (C) one case per flipped bit; distinct keys as listed")
    ctx.assumptions = [
        "words are integers in [0, 2^384) and byte strings of exactly 48 / 96 bytes (statement)",
        "compress_G1 is only given curve points (DESIGN 7 #9)",
    ]
    q = ctx.quick
    ctx.bounds = {"flags": "all 8 combinations", "G1_x_classes": 18, "G2_first_word_classes": 11,
                  "G2_second_word_classes": "11 generic + matching/mismatching",
                  "bit_flips": "every 8th bit of 1 encoding per group" if q else "all bits of 3 encodings per group"}
    tasks = []
    for group, step in (("E2", 8), ("E1", 4)):
        for lo in range(step):
            tasks.append(("points", {"group": group, "lo": lo, "step": step}))
    tasks.append(("words_g1", {}))
    for lo in range(11):
        tasks.append(("words_g2", {"lo": lo, "step": 11}))
    for group in ("E2", "E1"):
        for k in range(1 if q else 3):
            nt = 4 if q else 8
            for lo in range(nt):
                tasks.append(("flips", {"group": group, "k": k, "lo": lo if not q else lo * 2,
                                        "step": nt if not q else 8}))
    tasks.append(("collide", {"ks": [1, 2, 0x1234567890ABCDEF]}))
    for lo in range(4):
        tasks.append(("sqrt", {"lo": lo, "step": 4}))
    for group, n in (("E2", 1100 if q else 4500), ("E1", 2200 if q else 20000)):
        for via in (False, True):
            tasks.append(("sweep", {"group": group, "n": n, "vias": [via]}))
    ctx.pmap(ME, tasks)

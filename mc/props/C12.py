"""C12 - optimized pairings equal reference pairings; split final exponentiation exact.

(1) reference vs optimized pairing, coefficient for coefficient: scalar-pair alphabets at full
    size; the WHOLE group G1[13] x G2[13] of the tiny curve BLS-T1 (all 169 pairs, optimized in
    several scalings) and grids on BN-T / BLS-T2 / BLS-T1[6037] (same function bodies, loader).
(2) two-step form: for every multiset (up to the bound) of Miller values obtained with
    final_exponentiate=False, final_exponentiate(product) == product of one-shot pairings
    == e0^(sum a_i b_i).
(3) final_exponentiate(x) == x^((p^12-1)/r) and exp_by_p(x) == x^p on element alphabets (full
    size) and on all elements with <= 2 non-zero coefficients from {1,2,p-1} (tiny), against the
    model field's plain square-and-multiply.
"""
import itertools

from ..core import R, rng
from . import pairlib as PL

LEVEL = "exploration"
ME = "mc.props.C12"


# the flag is a truth value: False / 0 ask for the raw Miller value, omitted / True / 1 for the pairing
_FLAG_OFF = (False, 0)
_FLAG_ON = (None, True, 1)


def _pair(S, fam, a, b, lam1=1, lam2=(1, 0), fe=None, fqc=False):
    P = S.E1.mul(S.G1, a)
    Q = S.E2.mul(S.G2, b)
    lp = S.inf1(fam)[0] if P is None else S.pt1(fam, P, lam1)
    lq = S.inf2(fam)[0] if Q is None else S.pt2(fam, Q, tuple(lam2), fqc)
    if fe is None:
        o = PL.call(S.pair(fam).pairing, lq, lp)
    else:
        # the flag is the third parameter: given positionally every other time
        if (a + b) % 2:
            o = PL.call(S.pair(fam).pairing, lq, lp, fe)
        else:
            o = PL.call(S.pair(fam).pairing, lq, lp, final_exponentiate=fe)
        if o[0] == "raise" and o[1] in ("TypeError", "ValueError") and type(fe) is not bool:
            # an implementation may insist on a bool: then the bool of the same truth value is what is asked
            o = PL.call(S.pair(fam).pairing, lq, lp, final_exponentiate=bool(fe))
    return o


def _co(S, o):
    if o[0] != "ok":
        return o
    try:
        return S.co(o[1])
    except Exception as e:  # noqa: BLE001
        return ("raise", "result:" + type(e).__name__)


def cmp_refopt(S, a, b, lam1, lam2):
    ref = _co(S, _pair(S, "ref", a, b))
    opt = _co(S, _pair(S, "opt", a, b, lam1, lam2))
    return ref, opt


def task_refopt_inf(a, env):
    """infinity in either argument, in every representative the optimized module accepts: the
    optimized value must be the reference value (the unit)"""
    S = PL.get(a["cfg"])
    r = R("%s:ref==opt:infinity-representatives" % a["cfg"])
    refv = _co(S, PL.call(S.pair("ref").pairing, None, S.pt1("ref", S.G1)))
    for i2, z in enumerate(S.inf2("opt")):
        optv = _co(S, PL.call(S.pair("opt").pairing, z, S.pt1("opt", S.G1, 3)))
        r.ev += 1
        r.dk.add(("Q", i2))
        if optv != refv:
            r.viol("C12:%s:ref!=opt:infinity" % a["cfg"], ME + ":replay_refopt_inf", {"cfg": a["cfg"], "side": "Q", "i": i2}, refv, optv)
    refv = _co(S, PL.call(S.pair("ref").pairing, S.pt2("ref", S.G2), None))
    for i1, z in enumerate(S.inf1("opt")):
        optv = _co(S, PL.call(S.pair("opt").pairing, S.pt2("opt", S.G2, (2, 1)), z))
        r.ev += 1
        r.dk.add(("P", i1))
        if optv != refv:
            r.viol("C12:%s:ref!=opt:infinity" % a["cfg"], ME + ":replay_refopt_inf", {"cfg": a["cfg"], "side": "P", "i": i1}, refv, optv)
    r.sample({"cfg": a["cfg"], "infinity_representatives": [len(S.inf2("opt")), len(S.inf1("opt"))]})
    return r


def replay_refopt_inf(a):
    S = PL.get(a["cfg"])
    if a["side"] == "Q":
        refv = _co(S, PL.call(S.pair("ref").pairing, None, S.pt1("ref", S.G1)))
        optv = _co(S, PL.call(S.pair("opt").pairing, S.inf2("opt")[a["i"]], S.pt1("opt", S.G1, 3)))
    else:
        refv = _co(S, PL.call(S.pair("ref").pairing, S.pt2("ref", S.G2), None))
        optv = _co(S, PL.call(S.pair("opt").pairing, S.pt2("opt", S.G2, (2, 1)), S.inf1("opt")[a["i"]]))
    return None if refv == optv else {"reference": refv, "optimized": optv}


def task_refopt(a, env):
    S = PL.get(a["cfg"])
    r = R("%s:ref==opt" % a["cfg"])
    g = rng(env, "lam:" + a["cfg"])
    lams = [(1, (1, 0))]
    if a.get("scal"):
        lams += [(2, (0, 2)), (g.randrange(2, S.p), (g.randrange(S.p), g.randrange(1, S.p)))]
    for (av, bv) in a["pairs"]:
        av, bv = int(av, 16), int(bv, 16)
        if r.full():
            break
        refv = None
        for (l1, l2) in lams:
            if refv is None:
                refv = _co(S, _pair(S, "ref", av, bv))
            optv = _co(S, _pair(S, "opt", av, bv, l1, l2))
            r.ev += 1
            if refv != optv or isinstance(refv, tuple) and refv[:1] == ("raise",):
                r.viol("C12:%s:ref!=opt:%s" % (a["cfg"], "scaled" if l1 != 1 else "plain"), ME + ":replay_refopt",
                       {"cfg": a["cfg"], "a": hex(av), "b": hex(bv), "lam1": hex(l1), "lam2": [hex(x) for x in l2]},
                       refv, optv)
        r.dk.add((av % S.r, bv % S.r))
    if a.get("sample"):
        r.sample({"cfg": a["cfg"], "pairs(a,b)": a["pairs"][:3], "scalings": len(lams)})
    return r


def replay_refopt(a):
    S = PL.get(a["cfg"])
    ref, opt = cmp_refopt(S, int(a["a"], 16), int(a["b"], 16), int(a["lam1"], 16),
                          tuple(int(x, 16) for x in a["lam2"]))
    bad = ref != opt or (isinstance(ref, tuple) and ref[:1] == ("raise",))
    return {"reference": ref, "optimized": opt} if bad else None


# ------------------------------------------------------------------ split form
def _split_eval(S, fam, pairs, ms):
    """pairs: [(a,b)], ms: multiset as index tuple.  Returns (expected, two_step, product)."""
    Pm = S.pair(fam)
    F = S.F12
    mill, one_shot = {}, {}
    # scalings incl. "almost one": real part 1 with a non-zero imaginary part, and purely imaginary
    reps = [(1, (1, 0), False), (2, (0, 2), False), (1, (1, 7 % S.p or 1), True), (S.p - 1, (3, 1), True), (1, (1, S.p - 1), False), (1, (0, 1), False)]
    for i in set(ms):
        a, b = pairs[i]
        l1, l2, fqc = reps[i % len(reps)]
        o = _pair(S, fam, a, b, l1, l2, fe=_FLAG_OFF[i % 2], fqc=fqc)
        if o[0] != "ok":
            return "miller value computes", o, None
        mill[i] = o[1]
        one_shot[i] = _co(S, _pair(S, fam, a, b, fe=_FLAG_ON[i % 3]))
        if not (isinstance(one_shot[i], tuple) and len(one_shot[i]) == 12):
            return "one-shot pairing computes", one_shot[i], None
    base = _co(S, _pair(S, fam, 1, 1))
    prod = None
    for i in ms:
        prod = mill[i] if prod is None else prod * mill[i]
    two = _co(S, PL.call(Pm.final_exponentiate, prod))
    pe = F.one
    for i in ms:
        pe = F.mul(pe, one_shot[i])
    exp = F.pow(base, sum(pairs[i][0] * pairs[i][1] for i in ms) % S.r)
    return exp, two, pe


def task_split(a, env):
    S = PL.get(a["cfg"])
    fam = a["fam"]
    r = R("%s:%s:two-step-final-exponentiation" % (a["cfg"], fam))
    pairs = [(int(x, 16), int(y, 16)) for x, y in a["pairs"]]
    Pm = S.pair(fam)
    F = S.F12
    # cache Miller values and one-shot values for the alphabet
    mill, shot = [], []
    # the raw Miller values come from varying representatives of the same points (plain, scaled,
    # FQ-object coefficients) - the one-shot values from the plain ones
    # scalings incl. "almost one": real part 1 with a non-zero imaginary part, and purely imaginary
    reps = [(1, (1, 0), False), (2, (0, 2), False), (1, (1, 7 % S.p or 1), True), (S.p - 1, (3, 1), True), (1, (1, S.p - 1), False), (1, (0, 1), False)]
    for pi, (av, bv) in enumerate(pairs):
        l1, l2, fqc = reps[pi % len(reps)]
        o = _pair(S, fam, av, bv, l1, l2, fe=_FLAG_OFF[pi % 2], fqc=fqc)
        s = _co(S, _pair(S, fam, av, bv, fe=_FLAG_ON[pi % 3]))
        if o[0] != "ok" or not (isinstance(s, tuple) and len(s) == 12):
            r.ev += 1
            r.viol("C12:%s:%s:split:pairing-fails" % (a["cfg"], fam), ME + ":replay_split",
                   {"cfg": a["cfg"], "fam": fam, "pairs": a["pairs"], "ms": [pairs.index((av, bv))]},
                   "values", [o[:2] if o[0] != "ok" else "ok", s])
            return r
        mill.append(o[1])
        shot.append(s)
    base = _co(S, _pair(S, fam, 1, 1))
    for ms in a["multisets"]:
        if r.full():
            break
        prod = None
        pe = F.one
        for i in ms:
            prod = mill[i] if prod is None else prod * mill[i]
            pe = F.mul(pe, shot[i])
        two = _co(S, PL.call(Pm.final_exponentiate, prod))
        exp = F.pow(base, sum(pairs[i][0] * pairs[i][1] for i in ms) % S.r)
        r.ev += 1
        r.dk.add(tuple(ms))
        if not (two == pe == exp):
            r.viol("C12:%s:%s:split:size%d" % (a["cfg"], fam, min(len(ms), 3)), ME + ":replay_split",
                   {"cfg": a["cfg"], "fam": fam, "pairs": a["pairs"], "ms": list(ms)},
                   exp, {"two_step": two, "product_of_pairings": pe})
    if a.get("sample"):
        r.sample({"cfg": a["cfg"], "module": fam, "pair_alphabet": a["pairs"][:4],
                  "multiset_example": list(a["multisets"][-1])})
    return r


def replay_split(a):
    S = PL.get(a["cfg"])
    pairs = [(int(x, 16), int(y, 16)) for x, y in a["pairs"]]
    exp, two, pe = _split_eval(S, a["fam"], pairs, tuple(a["ms"]))
    if two == pe == exp:
        return None
    return {"expected": exp, "two_step": two, "product_of_pairings": pe}


# ------------------------------------------------------------------ final exponentiation / Frobenius
def _elements_full(S, env, thorough):
    p = S.p
    g = rng(env, "fe:" + S.name)
    w = [0, 1] + [0] * 10
    w6 = [0] * 6 + [1] + [0] * 5
    els = [[0] * 12, [1] + [0] * 11, w, w6, [p - 1] + [0] * 11, [3] + [0] * 10 + [5],
           [0, 0, p - 1, 0, 0, 0, 0, 2, 0, 0, 0, 0], [1] * 12, [p - 1] * 12]
    # low-degree / subfield-shaped elements (degree < 6, even powers only, odd powers only)
    els += [[3, 1] + [0] * 10, [2, 0, 0, 5, 0, 1] + [0] * 6, [g.randrange(p) for _ in range(6)] + [0] * 6,
            [1, 0, 1] + [0] * 9, [g.randrange(p) if i % 2 == 0 else 0 for i in range(12)],
            [g.randrange(p) if i % 2 == 1 else 0 for i in range(12)], [0] * 6 + [g.randrange(p) for _ in range(6)]]
    for _ in range(4 if not thorough else 12):
        els.append([g.randrange(p) for _ in range(12)])
    if thorough:
        for i in range(12):
            e = [0] * 12
            e[i] = g.randrange(1, p)
            els.append(e)
    return els


def _elements_tiny(S, env, thorough):
    p = S.p
    vals = [1, 2, p - 1]
    els = [[0] * 12]
    for i in range(12):
        for v in vals:
            e = [0] * 12
            e[i] = v
            els.append(e)
    for i, j in itertools.combinations(range(12), 2):
        for v in vals:
            for u in vals:
                e = [0] * 12
                e[i], e[j] = v, u
                els.append(e)
    g = rng(env, "fe:" + S.name)
    for _ in range(2000 if thorough else 300):
        els.append([g.randrange(p) for _ in range(12)])
    return els


def _failing_calls(S, fam):
    """history (results and exceptions ignored): the exponentiation helpers asked for malformed elements -
    a later coefficient that is not a number, an element of the quadratic field, None"""
    Pm = S.pair(fam)
    M = S.curve(fam)
    FQc = M.FQ
    bad = []
    try:
        bad.append(M.FQ12([FQc(7), FQc(11)] + [None] * 10))
        bad.append(M.FQ12([FQc(1), FQc(2), FQc(3), "x"] + [FQc(0)] * 8))
    except Exception:  # noqa: BLE001
        pass
    bad += [None, "7", (1, 2)]  # (never a plain number or a smaller-field element: those have honest, enormous powers)
    for f in (getattr(Pm, "exp_by_p", None), Pm.final_exponentiate):
        if f is None:
            continue
        for b in bad:
            try:
                f(b)
            except Exception:  # noqa: BLE001
                pass


def fedback_case(S, fam):
    """[(label, expected, observed)]: the very objects the pairing functions return, handed to
    final_exponentiate / exp_by_p (not rebuilt from their values)"""
    Pm = S.pair(fam)
    F = S.F12
    out = []
    for a_, b_ in ((1, 1), (2, 3)):
        for fe in ((None, False) if fam == "opt" else (None,)):  # the reference pairing has no flag
            o = _pair(S, fam, a_, b_, fe=fe)
            if o[0] != "ok":
                out.append(("pairing computes", "a value", o))
                continue
            obj = o[1]
            v = _co(S, o)
            for which, e_ in (("final_exponentiate", (S.p ** 12 - 1) // S.r), ("exp_by_p", S.p)):
                f = getattr(Pm, which, None)
                if f is None:
                    continue
                exp = F.pow(tuple(v), e_)
                got = _co(S, PL.call(f, obj))
                out.append(("%s(object returned by pairing(%d*G2, %d*G1%s))" % (which, b_, a_, "" if fe is None else ", final_exponentiate=False"), exp, got))
                out.append(("%s(the same object again)" % which, exp, _co(S, PL.call(f, obj))))
            # and the value must not have been changed by being used
            out.append(("object unchanged after use", v, _co(S, ("ok", obj))))
    return out


def task_fedback(a, env):
    S = PL.get(a["cfg"])
    r = R("%s:%s:returned-objects-as-arguments" % (a["cfg"], a["fam"]))
    _failing_calls(S, a["fam"])
    for i, (lbl, exp, got) in enumerate(fedback_case(S, a["fam"])):
        r.ev += 1
        r.dk.add(lbl)
        if exp != got:
            r.viol("C12:%s:%s:returned-object:%s" % (a["cfg"], a["fam"], lbl.split("(")[0]), ME + ":replay_fedback",
                   {"cfg": a["cfg"], "fam": a["fam"], "i": i}, exp, got, note=lbl)
    r.sample({"cfg": a["cfg"], "case": "final_exponentiate(x) where x is the object pairing() returned"})
    return r


def replay_fedback(a):
    S = PL.get(a["cfg"])
    _failing_calls(S, a["fam"])
    lbl, exp, got = fedback_case(S, a["fam"])[a["i"]]
    return None if exp == got else {"case": lbl, "expected": exp, "observed": got}


def fe_case(S, fam, which, v, fq_coeffs=False):
    """(expected, observed) for final_exponentiate / exp_by_p on model element v; fq_coeffs:
    the element carries same-family FQ objects instead of ints (a constructor form the classes keep)"""
    Pm = S.pair(fam)
    F = S.F12
    _failing_calls(S, fam)
    if fq_coeffs:
        FQc = S.curve(fam).FQ
        x = S.curve(fam).FQ12([FQc(c) for c in v])
    else:
        x = S.el12(fam, v)
    if which == "final_exponentiate":
        exp = F.pow(tuple(v), (S.p**12 - 1) // S.r)
        got = _co(S, PL.call(Pm.final_exponentiate, x))
    else:
        f = getattr(Pm, "exp_by_p", None)
        if f is None:
            return None, None
        exp = F.pow(tuple(v), S.p)
        got = _co(S, PL.call(f, x))
    return exp, got


def task_fe(a, env):
    S = PL.get(a["cfg"])
    fam = a["fam"]
    r = R("%s:%s:final_exponentiate+exp_by_p" % (a["cfg"], fam))
    els = (_elements_tiny if S.tiny else _elements_full)(S, env, env["tier"] == "thorough")
    if fam == "ref":
        # the reference classes are 15-30x slower: thinner (still structured-first) subset
        thin = a.get("thin", 1)
        els = els[::thin]
    els = els[a["lo"]::a["step"]]
    if getattr(S.pair(fam), "exp_by_p", None) is None and "exp_by_p" not in r.skipped:
        r.skipped.append("exp_by_p(%s)" % fam)
    for vi, v in enumerate(els):
        if r.full():
            break
        for which in ("final_exponentiate", "exp_by_p"):
            for fqc in ((False, True) if (vi % 4 == 1 or len(els) <= 8) else (False,)):
                exp, got = fe_case(S, fam, which, v, fqc)
                if exp is None:
                    continue
                r.ev += 1
                r.dk.add((which, tuple(v), fqc))
                if exp != got:
                    nz = sum(1 for c in v if c)
                    r.viol("C12:%s:%s:%s:%s%s" % (a["cfg"], fam, which, "sparse" if nz <= 2 else "dense",
                                                  ":fq-coefficients" if fqc else ""),
                           ME + ":replay_fe", {"cfg": a["cfg"], "fam": fam, "which": which, "fqc": fqc,
                                               "v": [hex(c) for c in v]}, exp, got)
    if a["lo"] == 0:
        r.sample({"cfg": a["cfg"], "module": fam, "element": [str(c)[:20] for c in els[min(3, len(els) - 1)]]})
    return r


def replay_fe(a):
    S = PL.get(a["cfg"])
    exp, got = fe_case(S, a["fam"], a["which"], [int(c, 16) for c in a["v"]], a.get("fqc", False))
    return None if exp == got else {"expected": exp, "observed": got}


# ------------------------------------------------------------------ plan
def _multisets(n, kmax):
    out = []
    for k in range(1, kmax + 1):
        out += [list(c) for c in itertools.combinations_with_replacement(range(n), k)]
    return out


# ------------------------------------------------------------------ long histories
def sweep_case(cfg, fam, n, sparse=False):
    """history: 3 anchor pairings; then n pairings on pairwise distinct G2 representatives; after 1, 2, 3, 4,
    6, 8, 12, 16, ... of them the anchors are evaluated again (with and without the final
    exponentiation): every repeat must equal the first evaluation.  Returns None or (after, what, first, again)."""
    S = PL.get(cfg)
    anchors = [(1, 1, 1, (1, 0)), (2, 3, 1, (1, 0)), (S.r - 1, 2, 2, (0, 1))]

    def ev(t, fe):
        a, b, l1, l2 = t
        return _co(S, _pair(S, fam, a, b, l1, l2, fe=fe))

    first = {(i, fe): ev(t, fe) for i, t in enumerate(anchors) for fe in (None, False)}
    checkpoints, c = set(), 1
    while c <= n:
        checkpoints |= {c, c + c // 2}
        c *= 2
    checkpoints.add(n)
    if sparse:  # full size: the anchors again only after 25 and after n distinct pairings
        checkpoints = {min(25, n), n}
    j = 0
    for lam_a in range(1, S.p):
        for lam_b in range(0, S.p):
            for b in range(1, min(S.r, 40)):
                if (b, lam_a, lam_b) in ((1, 1, 0), (3, 1, 0)) or (b == 2 and (lam_a, lam_b) == (0, 1)):
                    continue
                j += 1
                if j > n:
                    return None
                ev((1 + j % 5, b, 1, (lam_a, lam_b)), None if j % 2 else False)
                if j in checkpoints:
                    for (i, fe), want in first.items():
                        got = ev(anchors[i], fe)
                        if got != want:
                            return (j, "anchor %d, final_exponentiate=%s" % (i, fe is None), want, got)
    return None


def task_sweep(a, env):
    r = R("%s:%s:anchors-again-after-n-distinct-pairings" % (a["cfg"], a["fam"]))
    bad = sweep_case(a["cfg"], a["fam"], a["n"], a.get("sparse", False))
    r.ev += a["n"] + 6 * 20
    r.dk.add((a["cfg"], a["fam"], a["n"]))
    if bad:
        r.viol("C12:%s:%s:repeat-differs-after-many-distinct" % (a["cfg"], a["fam"]), ME + ":replay_sweep",
               {"cfg": a["cfg"], "fam": a["fam"], "n": bad[0], "sparse": a.get("sparse", False)}, bad[2], bad[3],
               note="%s after %d distinct pairings" % (bad[1], bad[0]))
    r.sample({"cfg": a["cfg"], "module": a["fam"], "n": a["n"],
              "history": "e(Q0,P0), e(Q1,P1), e(Q2,P2); e(Q3,.); anchors again; e(Q4,.); anchors again; e(Q5,.), e(Q6,.); anchors again; ..."})
    return r


def replay_sweep(a):
    bad = sweep_case(a["cfg"], a["fam"], a["n"], a.get("sparse", False))
    return None if not bad else {"after": bad[0], "what": bad[1], "first": bad[2], "again": bad[3]}


def run(ctx):
    ctx.rule = (
        "ref==opt: one case per (a, b, scaling), distinct = distinct (a mod r, b mod r); split "
        "form: one case per multiset of the pair alphabet; final exponentiation: one case per "
        "(function, element)"
    )
    ctx.assumptions = [
        "points are multiples of the generators built by the model (G1, G2 cyclic of order r)",
        "plain powers are computed by the model field (schoolbook multiplication, "
        "iterative square-and-multiply)",
    ]
    g = ctx.rng("pairs")
    hx = lambda t: [hex(t[0]), hex(t[1])]  # noqa: E731
    tasks = []
    bounds = {}
    for cfg in PL.FULL:
        S = PL.get(cfg)
        r = S.r
        k1, k2, k3 = g.randrange(2, r), g.randrange(2, r), g.randrange(2, r)
        prs = [(1, 1), (2, 1), (1, 2), (r - 1, 1), (k1, k2), (3, r - 2)]
        if not ctx.quick:
            prs += [(k3, 1), (1, k3), (r - 1, r - 1), (2, 2), (k2, k1), (r + 1, 5)]
        for i, pr in enumerate(prs):
            tasks.append(("refopt", {"cfg": cfg, "pairs": [hx(pr)], "scal": i in (0, 4), "sample": i == 1}))
        tasks.append(("refopt", {"cfg": cfg, "pairs": [hx((0, 1)), hx((1, r))]}))
        alpha = [(1, 1), (2, 3), (k1, k2), (r - 1, 2)]
        ms = _multisets(4, 4 if ctx.quick else 6)
        for j, ch in enumerate([ms[i::6] for i in range(6)]):
            tasks.append(("split", {"cfg": cfg, "fam": "opt", "pairs": [hx(x) for x in alpha],
                                    "multisets": ch, "sample": j == 0}))
        nfe = 4 if ctx.quick else 8
        for fam in ("opt", "ref"):
            for lo in range(nfe):
                tasks.append(("fe", {"cfg": cfg, "fam": fam, "lo": lo, "step": nfe,
                                     "thin": 4 if ctx.quick else 1}))
        bounds[cfg] = {"ref_vs_opt_pairs": len(prs) + 2, "split_multisets": len(ms),
                       "fe_elements": 13 if ctx.quick else 33}
    # tiny: whole order-13 group
    allp = [(a, b) for a in range(14) for b in range(14)]
    for ch in [allp[i::14] for i in range(14)]:
        tasks.append(("refopt", {"cfg": "BLS-T1-13", "pairs": [hx(x) for x in ch], "scal": not ctx.quick}))
    sub = allp if not ctx.quick else [(a, b) for a in (1, 2, 3, 5, 12, 13) for b in (1, 2, 4, 7, 12, 0)]
    ms = _multisets(len(sub), 2)
    nsplit = 16
    for j in range(nsplit):
        tasks.append(("split", {"cfg": "BLS-T1-13", "fam": "opt", "pairs": [hx(x) for x in sub],
                                "multisets": ms[j::nsplit], "sample": j == 0}))
    bounds["BLS-T1-13"] = {"ref_vs_opt": "all 196 (a,b) in [0,13]^2", "split": "all %d multisets of size <= 2 over %d pairs" % (len(ms), len(sub))}
    for cfg in ("BN-T", "BLS-T2", "BLS-T1-6037"):
        S = PL.get(cfg)
        n = (160 if cfg != "BLS-T1-6037" else 110) if ctx.quick else 1500
        gg = ctx.rng("tinypairs:" + cfg)
        small = [(a, b) for a in range(0, 10) for b in range(0, 10)]
        rest = [(gg.randrange(S.r), gg.randrange(S.r)) for _ in range(n - 100 - 4)]
        prs = small + [(S.r - 1, 1), (1, S.r - 1), (S.r, 1), (S.r + 1, 2)] + rest
        nt = 12 if ctx.quick else 48
        for j in range(nt):
            tasks.append(("refopt", {"cfg": cfg, "pairs": [hx(x) for x in prs[j::nt]], "scal": j == 0,
                                     "sample": j == 0}))
        alpha = [(1, 1), (2, 3), (5, 7), (S.r - 1, 2), (gg.randrange(S.r), gg.randrange(S.r))]
        ms = _multisets(5, 4 if ctx.quick else 6)
        for j in range(4):
            tasks.append(("split", {"cfg": cfg, "fam": "opt", "pairs": [hx(x) for x in alpha], "multisets": ms[j::4]}))
        bounds[cfg] = {"ref_vs_opt_pairs": len(prs), "split_multisets": len(ms)}
    for cfg in PL.TINY:
        if cfg == "BLS-T1-6037" and ctx.quick:
            continue
        for fam in ("opt", "ref"):
            for lo in range(4):
                tasks.append(("fe", {"cfg": cfg, "fam": fam, "lo": lo, "step": 4,
                                     "thin": 12 if ctx.quick else 2}))
    for cfg in PL.FULL + ("BLS-T2", "BN-T"):
        tasks.append(("refopt_inf", {"cfg": cfg}))
        for fam in ("opt", "ref"):
            tasks.append(("fedback", {"cfg": cfg, "fam": fam}))
    for cfg in ("BN-T", "BLS-T2"):
        for fam in ("opt", "ref"):
            n = (300 if fam == "opt" else 100) if ctx.quick else (5000 if fam == "opt" else 1000)
            tasks.append(("sweep", {"cfg": cfg, "fam": fam, "n": n}))
    for cfg in PL.FULL:  # full size: short sweep (a table of a few dozen entries)
        tasks.append(("sweep", {"cfg": cfg, "fam": "opt", "n": 34 if ctx.quick else 140, "sparse": True}))
    ctx.bounds = bounds
    tasks.sort(key=lambda t: 0 if t[1]["cfg"] in PL.FULL and (t[0] == "refopt" or t[1].get("fam") == "ref") else 1)
    ctx.pmap(ME, tasks)

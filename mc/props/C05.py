"""C05 - pairings are bilinear, non-degenerate, unit on infinity, and refuse off-curve input.

I2 (full size, 4 modules): complete scalar grids (a, b) over a boundary alphabet:
pairing(b*G2, a*G1) == pairing(G2, G1)^(ab); order exactly r; every representative of infinity;
off-curve arguments refused.  I1 (tiny pairing-friendly curves, the same function bodies through
the configuration loader): the WHOLE group G1[13] x G2[13] of BLS-T1 in all scalings, complete
grids / complete rows of BN-T (NAF digits -1 exercised) and BLS-T2 (negative x, prime r).
G1 x G2 is cyclic x cyclic, so e(aP, bQ) = e(P, Q)^(ab) for all a, b *is* bilinearity (sum ->
product in either argument, negation -> inverse follow and are also asserted on the computed
values).  Points are built by the model (independent of the library's multiply); powers of the
base value by the model field.
"""
from ..core import R, rng
from . import pairlib as PL

LEVEL = "exploration"
ME = "mc.props.C05"


def _base(S, fam):
    """e0 = pairing(G2, G1) as model coefficients, or a ('raise', ..) outcome"""
    o = PL.call(S.pair(fam).pairing, S.pt2(fam, S.G2), S.pt1(fam, S.G1))
    if o[0] != "ok":
        return o
    try:
        return ("ok", S.co(o[1]))
    except Exception as e:  # noqa: BLE001
        return ("raise", "result:" + type(e).__name__)


def eval_pair(S, fam, a, b, lam1=1, lam2=(1, 0), i1=0, i2=0, e0=None, fqc=False):
    """(expected coefficients, observed coefficients-or-outcome) of pairing(b*G2, a*G1)."""
    if e0 is None:
        e0 = _base(S, fam)
        if e0[0] != "ok":
            return "base pairing computes", e0
        e0 = e0[1]
    P = S.E1.mul(S.G1, a)
    Q = S.E2.mul(S.G2, b)
    lp = S.inf1(fam)[i1] if P is None else S.pt1(fam, P, lam1)
    lq = S.inf2(fam)[i2] if Q is None else S.pt2(fam, Q, tuple(lam2), fqc)
    exp = S.F12.pow(e0, (a * b) % S.r)
    o = PL.call(S.pair(fam).pairing, lq, lp)
    if o[0] == "ok":
        try:
            return exp, S.co(o[1])
        except Exception as e:  # noqa: BLE001
            return exp, ("raise", "result:" + type(e).__name__)
    return exp, o


def _lams(S, fam, scal, env, tag):
    if fam == "ref" or not scal:
        return [(1, (1, 0))]
    g = rng(env, "lam:" + tag)
    # "almost one" scalings: real part exactly 1 with a non-zero imaginary part, purely imaginary unit
    if scal == "all4":
        return [(1, (1, 0)), (2, (1, 0)), (1, (0, 2)), (2, (0, 2)), (1, (1, 3)), (1, (0, 1))]
    out = [(1, (1, 0)), (2, (0, 2)), (S.p - 1, (S.p - 1, 0)), (1, (1, 7 % S.p or 1)), (1, (1, S.p - 1)), (1, (0, 1))]
    out.append((g.randrange(2, S.p), (g.randrange(S.p), g.randrange(S.p))))
    return out


def task_grid(a, env):
    S = PL.get(a["cfg"])
    fam = a["fam"]
    r = R("%s:%s:bilinear-grid" % (a["cfg"], fam))
    e0 = _base(S, fam)
    one = S.F12.one
    args0 = {"cfg": a["cfg"], "fam": fam}
    r.ev += 1
    if e0[0] != "ok":
        r.viol("C05:%s:%s:base-pairing-fails" % (a["cfg"], fam), ME + ":replay",
               dict(args0, a=hex(1), b=hex(1)), "a field element", e0)
        return r
    e0 = e0[1]
    # non-degenerate, order exactly r (r prime, or 13 / 6037 prime in the tiny subgroups)
    if e0 == one or S.F12.pow(e0, S.r) != one:
        r.viol("C05:%s:%s:order" % (a["cfg"], fam), ME + ":replay_order", args0,
               "e != 1 and e^r == 1", {"e_is_one": e0 == one})
    lams = _lams(S, fam, a.get("scal"), env, a["cfg"])
    vals = {}
    for av in a["as"]:
        if r.full():
            break
        av = int(av, 16) if isinstance(av, str) else av
        for bv in a["bs"]:
            bv = int(bv, 16) if isinstance(bv, str) else bv
            infs1 = range(len(S.inf1(fam))) if av % S.r == 0 else [0]
            infs2 = range(len(S.inf2(fam))) if bv % S.r == 0 else [0]
            for (l1, l2) in lams:
                for i1 in infs1:
                    for i2 in infs2:
                        exp, got = eval_pair(S, fam, av, bv, l1, l2, i1, i2, e0)
                        r.ev += 1
                        if got != exp:
                            cls = "infinity" if (av % S.r == 0 or bv % S.r == 0) else (
                                "scaled" if (l1, tuple(l2)) != (1, (1, 0)) else "plain")
                            r.viol("C05:%s:%s:bilinearity:%s" % (a["cfg"], fam, cls), ME + ":replay",
                                   dict(args0, a=hex(av), b=hex(bv), lam1=hex(l1),
                                        lam2=[hex(x) for x in l2], i1=i1, i2=i2), exp, got)
                        elif (l1, tuple(l2)) == (1, (1, 0)):
                            vals[(av % S.r, bv % S.r)] = got
            r.dk.add((av % S.r, bv % S.r))
            if a.get("fqc") and av % S.r and bv % S.r:
                # the same G2 point with FQ-object coefficients (plain and one scaled form)
                for (l1, l2) in lams[:2]:
                    exp, got = eval_pair(S, fam, av, bv, l1, l2, 0, 0, e0, True)
                    r.ev += 1
                    if got != exp:
                        r.viol("C05:%s:%s:bilinearity:fq-coefficients" % (a["cfg"], fam), ME + ":replay",
                               dict(args0, a=hex(av), b=hex(bv), lam1=hex(l1), lam2=[hex(x) for x in l2], fqc=True), exp, got)
    # derived laws on the computed values (model arithmetic on the observed results):
    # sum -> product in either argument; negation -> inverse
    F = S.F12
    n = 0
    for (a1, b1), v1 in vals.items():
        for (a2, b2), v2 in vals.items():
            if b1 == b2 and ((a1 + a2) % S.r, b1) in vals:
                n += 1
                if F.mul(v1, v2) != vals[((a1 + a2) % S.r, b1)]:
                    r.viol("C05:%s:%s:additivity-G1" % (a["cfg"], fam), ME + ":replay",
                           dict(args0, a=hex(a1 + a2), b=hex(b1)), "e(Q,P1+P2)=e(Q,P1)e(Q,P2)", [a1, a2, b1])
            if a1 == a2 and (a1, (b1 + b2) % S.r) in vals:
                n += 1
                if F.mul(v1, v2) != vals[(a1, (b1 + b2) % S.r)]:
                    r.viol("C05:%s:%s:additivity-G2" % (a["cfg"], fam), ME + ":replay",
                           dict(args0, a=hex(a1), b=hex(b1 + b2)), "e(Q1+Q2,P)=e(Q1,P)e(Q2,P)", [a1, b1, b2])
    r.notes["derived_law_instances"] = n
    pass
    if a.get("sample"):
        r.sample({"cfg": a["cfg"], "module": fam, "a": [str(x)[:40] for x in a["as"][:4]],
                  "b": [str(x)[:40] for x in a["bs"][:4]], "scalings": len(lams)})
    return r


def replay(a):
    S = PL.get(a["cfg"])
    exp, got = eval_pair(S, a["fam"], int(a["a"], 16), int(a["b"], 16), int(a.get("lam1", "0x1"), 16),
                         tuple(int(x, 16) for x in a.get("lam2", ["0x1", "0x0"])),
                         a.get("i1", 0), a.get("i2", 0), None, a.get("fqc", False))
    return None if got == exp else {"expected": exp, "observed": got}


def replay_order(a):
    S = PL.get(a["cfg"])
    e0 = _base(S, a["fam"])
    if e0[0] != "ok":
        return {"observed": e0}
    e0 = e0[1]
    if e0 == S.F12.one or S.F12.pow(e0, S.r) != S.F12.one:
        return {"expected": "e != 1 and e^r == 1", "observed": {"e_is_one": e0 == S.F12.one}}
    return None


# ------------------------------------------------------------------ off-curve arguments
def _offcurve_cases(S, fam, env):
    """[(label, libQ, libP)] with exactly one argument off its curve (model-checked)."""
    g = rng(env, "off:" + S.name)
    k = g.randrange(2, S.r)
    P, Q = S.E1.mul(S.G1, k), S.E2.mul(S.G2, k)
    F1, F2 = S.F1, S.F2
    out = []
    badP = [("y+1", (P[0], F1.add(P[1], 1))), ("x+1", (F1.add(P[0], 1), P[1])), ("swapped", (P[1], P[0])),
            ("(0,0)", (0, 0)), ("G1(y+1)", (S.G1[0], F1.add(S.G1[1], 1)))]
    badQ = [("y+1", (Q[0], F2.add(Q[1], (1, 0)))), ("x+i", (F2.add(Q[0], (0, 1)), Q[1])),
            ("swapped", (Q[1], Q[0])), ("(0,0)", ((0, 0), (0, 0))),
            ("conj", ((Q[0][0], F1.neg(Q[0][1])), Q[1]))]
    for lbl, bp in badP:
        if not S.E1.on_curve(bp):
            for lam in ([1] if fam == "ref" else [1, 3]):
                out.append(("P:%s:lam%d" % (lbl, lam), S.pt2(fam, S.G2), S.pt1(fam, bp, lam)))
    for lbl, bq in badQ:
        if not S.E2.on_curve(bq):
            for lam in ([(1, 0)] if fam == "ref" else [(1, 0), (2, 5)]):
                out.append(("Q:%s:lam%s" % (lbl, lam[1]), S.pt2(fam, bq, lam), S.pt1(fam, S.G1)))
    # an off-curve argument whose PARTNER is the point at infinity (every representative): the
    # refusal must not depend on the order of the infinity shortcut and the curve checks
    for lbl, bp in badP[:2]:
        if not S.E1.on_curve(bp):
            for i, z in enumerate(S.inf2(fam)):
                out.append(("P:%s:partner-infinity#%d" % (lbl, i), z, S.pt1(fam, bp)))
    for lbl, bq in badQ[:2]:
        if not S.E2.on_curve(bq):
            for i, z in enumerate(S.inf1(fam)):
                out.append(("Q:%s:partner-infinity#%d" % (lbl, i), S.pt2(fam, bq), z))
    return out


def task_offcurve(a, env):
    S = PL.get(a["cfg"])
    fam = a["fam"]
    r = R("%s:%s:off-curve-refused" % (a["cfg"], fam))
    _error_path_history(a["cfg"])
    for i, (lbl, lq, lp) in enumerate(_offcurve_cases(S, fam, env)):
        flags = (None,) if fam == "ref" else (None, False, True)
        for fe in flags:
            o = PL.call(S.pair(fam).pairing, lq, lp) if fe is None else PL.call(S.pair(fam).pairing, lq, lp, final_exponentiate=fe)
            if fe is not None and o[0] == "raise":
                # the flag is the third parameter: the same question with the flag given positionally
                o = PL.call(S.pair(fam).pairing, lq, lp, fe)
            r.ev += 1
            r.dk.add((lbl, str(fe)))
            if o[0] != "raise":
                r.viol("C05:%s:%s:off-curve-accepted:%s%s" % (a["cfg"], fam, lbl.split(":")[0], "" if fe is None else ":final_exponentiate=%s" % fe),
                       ME + ":replay_off", {"cfg": a["cfg"], "fam": fam, "i": i, "seed": env["seed"], "fe": fe},
                       "an exception", "returned a value")
    r.sample({"cfg": a["cfg"], "module": fam, "labels": sorted(r.dk)[:4]})
    return r


def _error_path_history(cfg):
    """full-size BLS12-381 only: verification calls that fail inside the library (an identity key in
    the aggregate loop, a malformed signature) before the pairing is asked to refuse a point"""
    if cfg != "bls12_381":
        return
    import importlib
    from ..model import bls as MB

    B = importlib.import_module("py_ecc.bls")
    pk, ident = MB.sk_to_pk(5), MB.g1_bytes(None)
    sig = MB.sign("basic", 5, b"m")
    for C in (B.G2Basic, B.G2ProofOfPossession):
        PL.call(C.AggregateVerify, [pk, ident], [b"m", b"n"], sig)
        PL.call(C.AggregateVerify, [ident], [b"m"], sig)
        PL.call(C.Verify, pk, b"m", b"\x00" * 96)
    PL.call(B.G2ProofOfPossession.FastAggregateVerify, [pk, ident], b"m", sig)


def replay_off(a):
    S = PL.get(a["cfg"])
    env = {"seed": a["seed"], "pid": "C05", "tier": "quick"}
    lbl, lq, lp = _offcurve_cases(S, a["fam"], env)[a["i"]]
    _error_path_history(a["cfg"])
    fe = a.get("fe")
    o = PL.call(S.pair(a["fam"]).pairing, lq, lp) if fe is None else PL.call(S.pair(a["fam"]).pairing, lq, lp, final_exponentiate=fe)
    if fe is not None and o[0] == "raise":
        o = PL.call(S.pair(a["fam"]).pairing, lq, lp, fe)
    return None if o[0] == "raise" else {"case": lbl, "expected": "an exception", "observed": "returned a value"}


# ------------------------------------------------------------------ plan
def _chunks(xs, n):
    return [xs[i:i + n] for i in range(0, len(xs), n)]


def run(ctx):
    ctx.rule = (
        "one case = one (module, a, b, scaling, infinity representative): pairing(b*G2, a*G1) "
        "against pairing(G2,G1)^(ab); distinct = distinct (a mod r, b mod r) per module and "
        "configuration; off-curve cases counted per label"
    )
    ctx.assumptions = [
        "G1 and G2 are cyclic of prime order r, so the scalar law on generators is bilinearity",
        "tiny configurations run the same function bodies with substituted module constants "
        "(DESIGN 5); the optimized Miller loops' literal slice index is shimmed (declared there)",
    ]
    g = ctx.rng("scalars")
    tasks = []
    bounds = {}
    for cfg in PL.FULL:
        S = PL.get(cfg)
        r = S.r
        k1, k2 = g.randrange(2, r), g.randrange(2, r)
        A = [0, 1, 2, r - 1, r, r + 1, k1]
        Bv = [0, 1, 2, r - 1, r, r + 1, k2]
        hx = lambda xs: [hex(x) for x in xs]  # noqa: E731
        # optimized: the complete 7x7 grid; quick: plain, thorough: 4 scalings
        for i, av in enumerate(A):
            tasks.append(("grid", {"cfg": cfg, "fam": "opt", "as": hx([av]), "bs": hx(Bv),
                                   "scal": None if ctx.quick else "mixed", "sample": i == 1}))
        tasks.append(("grid", {"cfg": cfg, "fam": "opt", "as": hx([1, k1]), "bs": hx([1, k2]), "scal": "mixed", "fqc": True}))
        tasks.append(("grid", {"cfg": cfg, "fam": "ref", "as": hx([2]), "bs": hx([k2]), "fqc": True}))
        # reference (4.5 s per pairing): quick 3x3 + the 0 / r rows and columns; thorough 7x7
        if ctx.quick:
            for av in (1, 2, r - 1):
                tasks.append(("grid", {"cfg": cfg, "fam": "ref", "as": hx([av]), "bs": hx([1, 2, r - 1]),
                                       "sample": av == 1}))
            tasks.append(("grid", {"cfg": cfg, "fam": "ref", "as": hx([0, r]), "bs": hx([1, 0, r])}))
            tasks.append(("grid", {"cfg": cfg, "fam": "ref", "as": hx([1, k1]), "bs": hx([0, k2])}))
        else:
            for av in A:
                for bs in _chunks(Bv, 4):
                    tasks.append(("grid", {"cfg": cfg, "fam": "ref", "as": hx([av]), "bs": hx(bs)}))
        for fam in ("ref", "opt"):
            tasks.append(("offcurve", {"cfg": cfg, "fam": fam}))
        bounds[cfg] = {"a": ["0", "1", "2", "r-1", "r", "r+1", "seeded"], "b": "same",
                       "optimized": "7x7", "reference": "3x3 + zero/r rows" if ctx.quick else "7x7"}
    # ---- tiny configurations
    # BLS-T1, subgroup of order 13: the whole group, every scaling
    for av in range(0, 14):
        tasks.append(("grid", {"cfg": "BLS-T1-13", "fam": "opt", "as": [av], "bs": list(range(14)),
                               "scal": "all4", "sample": av == 2, "fqc": av in (1, 5)}))
    for avs in _chunks(list(range(14)), 2 if ctx.quick else 1):
        tasks.append(("grid", {"cfg": "BLS-T1-13", "fam": "ref", "as": avs,
                               "bs": list(range(14)) if not ctx.quick else [0, 1, 2, 5, 12, 13]}))
    bounds["BLS-T1-13"] = "optimized: all 14x14 (a,b in 0..13) x 4 scalings; reference: %s" % (
        "14x6" if ctx.quick else "14x14")
    # order 6037: complete rows
    n6 = 6037
    rows = list(range(0, n6 + 1)) if not ctx.quick else list(range(0, 260)) + [n6 - 1, n6, n6 + 1]
    for ch in _chunks(rows, 130):
        tasks.append(("grid", {"cfg": "BLS-T1-6037", "fam": "opt", "as": ch, "bs": [1, 2]}))
        tasks.append(("grid", {"cfg": "BLS-T1-6037", "fam": "opt", "as": [1, 2], "bs": ch}))
    tasks.append(("grid", {"cfg": "BLS-T1-6037", "fam": "ref", "as": [0, 1, 2, 3, n6 - 1], "bs": [1, 5, n6]}))
    bounds["BLS-T1-6037"] = "rows a in %s x b in {1,2} and the transposed columns" % (
        "[0,259]+{r-1,r,r+1}" if ctx.quick else "[0, r]")
    # BN-T (prime r = 99709; NAF digits -1)
    rT = PL.get("BN-T").r
    sm = list(range(0, 41)) + [rT - 2, rT - 1, rT, rT + 1]
    if ctx.quick:
        for av in sm:
            tasks.append(("grid", {"cfg": "BN-T", "fam": "opt", "as": [av], "bs": sm, "scal": None,
                                   "sample": av == 3}))
        bounds["BN-T"] = "optimized: a,b in [0,40]+{r-2..r+1} complete grid; reference 8x8"
    else:
        for av in sm:
            tasks.append(("grid", {"cfg": "BN-T", "fam": "opt", "as": [av], "bs": sm, "scal": "mixed"}))
        for ch in _chunks(list(range(0, rT + 1)), 2000):
            tasks.append(("grid", {"cfg": "BN-T", "fam": "opt", "as": ch, "bs": [1]}))
            tasks.append(("grid", {"cfg": "BN-T", "fam": "opt", "as": [1], "bs": ch}))
        bounds["BN-T"] = "optimized: EVERY a in [0, r] with b=1 and every b with a=1; 45x45 grid x 4 scalings; reference 18x18"
    rs = [0, 1, 2, 3, 7, 40, rT - 1, rT] if ctx.quick else list(range(0, 15)) + [40, rT - 1, rT]
    for av in rs:
        tasks.append(("grid", {"cfg": "BN-T", "fam": "ref", "as": [av], "bs": rs}))
    # BLS-T2 (negative x, prime r)
    r2 = PL.get("BLS-T2").r
    sm2 = list(range(0, 37 if ctx.quick else 80)) + [r2 - 1, r2, r2 + 1]
    for av in sm2:
        tasks.append(("grid", {"cfg": "BLS-T2", "fam": "opt", "as": [av], "bs": sm2,
                               "scal": None if ctx.quick else "mixed"}))
    for av in rs[:6] + [r2 - 1, r2]:
        tasks.append(("grid", {"cfg": "BLS-T2", "fam": "ref", "as": [av], "bs": [0, 1, 2, 3, 7, r2 - 1]}))
    bounds["BLS-T2"] = "optimized %dx%d grid; reference 8x6" % (len(sm2), len(sm2))
    for cfg in PL.TINY:
        for fam in ("ref", "opt"):
            tasks.append(("offcurve", {"cfg": cfg, "fam": fam}))
    ctx.bounds = bounds
    # slow reference tasks first so the pool drains evenly
    tasks.sort(key=lambda t: 0 if (t[1].get("fam") == "ref" and t[1]["cfg"] in PL.FULL) else 1)
    ctx.pmap(ME, tasks)

"""C20 - public functions are pure: no mutation of inputs / constants, history-independent.

STATE = canonical deep snapshot of all py_ecc module and class data (mc.snapshot).  TRANSITION =
one public operation of the alphabet (mc.props.C20_ops, ~100 operations across all modules,
field classes, curves, ciphersuites, incl. error paths and ad-hoc subclasses).
Explored:
  * every operation ALONE in a freshly started interpreter, twice (two hash seeds): result,
    state after the call, arguments after the call;
  * in long-lived workers (whose whole call log is the history): every ADJACENT ordered pair
    (a, b) of the cheap operations (thorough: of all operations), every operation before and
    after each costly operation, both total orders of the costly operations (thorough: all
    adjacent triples over the cheapest operations).
After EVERY call: snapshot == initial snapshot, argument snapshot unchanged, and
result(b | history) == result(b | fresh interpreter).  A mismatch is confirmed by replaying the
minimal history in a fresh interpreter before it is reported.
"""
import json
import os
import subprocess
import sys

from ..core import R, ROOT
from .. import snapshot as SN
from . import C20_ops as OPSM

LEVEL = "model_checking"
ME = "mc.props.C20"

IMPORTS = ["py_ecc", "py_ecc.fields", "py_ecc.bn128", "py_ecc.bls12_381", "py_ecc.optimized_bn128",
           "py_ecc.optimized_bls12_381", "py_ecc.secp256k1", "py_ecc.bls", "py_ecc.bls.hash",
           "py_ecc.bls.hash_to_curve", "py_ecc.bls.point_compression", "py_ecc.bls.g2_primitives",
           "py_ecc.bls.constants", "py_ecc.optimized_bls12_381.constants"]

_W = {"S0": None, "log": [], "lits": None}


def _lits_to_json(l):
    return {k: (v.hex() if isinstance(v, bytes) else hex(v)) for k, v in l.items()}


def _lits_from_json(j):
    return {k: (int(v, 16) if v.startswith("0x") else bytes.fromhex(v)) for k, v in j.items()}


def init_process(lits):
    """import everything, bind literals, take the initial snapshot (once per process)"""
    import importlib

    if _W["S0"] is None:
        for m in IMPORTS:
            importlib.import_module(m)
        OPSM.bind(lits)
        _W["lits"] = lits
        _W["S0"] = SN.snapshot()
        _W["S_import"] = dict(_W["S0"])
    return _W["S0"]


def step(name):
    """run one operation; returns record dict"""
    cost, build = OPSM.get(name)
    f, args, kwargs = build()
    before = SN.digest(SN.canon([args, kwargs]))
    try:
        raw = f(*args, **kwargs)
        res = ("ok", SN.canon(raw))
        # the caller owns what it was handed: a returned buffer is wiped after use (as key material is);
        # later calls must not see that
        for b in ([raw] if isinstance(raw, bytearray) else [x for x in raw if isinstance(x, bytearray)] if isinstance(raw, (tuple, list)) else []):
            b[:] = bytes(len(b))
    except RecursionError:
        res = ("raise", "RecursionError")
    except Exception as e:  # noqa: BLE001 - an exception is an outcome; it must leave the state untouched too
        res = ("raise", type(e).__name__)
    after = SN.digest(SN.canon([args, kwargs]))
    S = SN.snapshot()
    _W["log"].append(name)
    invariant_broken = (res[0] == "ok" and isinstance(res[1], dict) and res[1].get("t") == "tuple"
                        and len(res[1].get("v", [])) == 2 and res[1]["v"][0] == "C20-INVARIANT" and res[1]["v"][1] is not True)
    d = SN.diff(_W["S0"], S)
    # memo tables (empty / absent at import time) are not constants: noted, not reported; a wrong
    # memo shows as a history-dependent RESULT
    cachey = [k for k in d if SN.cache_like(k, _W["S_import"])]
    return {"op": name, "result": SN.digest(res), "short": json.dumps(res)[:160], "args_mutated": before != after,
            "state_diff": [k for k in d if k not in cachey], "cache_like_changes": cachey,
            "invariant_broken": invariant_broken}


# ------------------------------------------------------------------ systematically generated neighbours
class _IntSub(int):
    __slots__ = ()


class _TaggedBytes(bytes):
    __slots__ = ()


def _perturb(v):
    """[(label, value)] structurally close variants of one argument: what a memo table keyed on
    too little of its input would confuse with the original"""
    import hashlib

    out = []
    if isinstance(v, bool) or v is None:
        return out
    if isinstance(v, (bytes, bytearray)):
        b = bytes(v)
        if b:
            out.append(("last-bit", b[:-1] + bytes([b[-1] ^ 1])))
            out.append(("sign-flag-bit", bytes([b[0] ^ 0x20]) + b[1:]))
            out.append(("first-bit", bytes([b[0] ^ 0x80]) + b[1:]))
        out.append(("plus-00", b + b"\x00"))
        out.append(("as-memoryview", memoryview(b)))
        out.append(("as-bytearray", bytearray(b)) if isinstance(v, bytes) else ("as-bytes", b))
        out.append(("as-bytes-subclass", _TaggedBytes(b)))
    elif isinstance(v, int):
        from fractions import Fraction
        out += [("+1", v + 1), ("-1", v - 1), ("as-Fraction", Fraction(v)),
                # equal hash() in CPython: what a table keyed on hash(arguments) confuses with the original
                ("+hash-modulus", v + 2 ** 61 - 1), ("as-int-subclass", _IntSub(v))]
    elif type(v).__name__ == "Fraction":
        out += [("as-int", int(v))]
    elif callable(v) and getattr(v, "__name__", "").startswith("openssl_"):
        out.append(("other-hash", hashlib.sha512 if "sha256" in v.__name__ else hashlib.sha256))
        out.append(("other-hash-same-block", hashlib.sha224 if "sha256" in v.__name__ else hashlib.sha384))
    elif isinstance(v, tuple) and v and all(SN._is_field_el(c) for c in v):
        if len(v) == 3:
            out.append(("scaled", tuple(c * 2 for c in v)))
            out.append(("negated", (v[0], -v[1], v[2])))
            out.append(("scaled+negated", (v[0] * 3, -v[1] * 3, v[2] * 3)))
        elif len(v) == 2:
            out.append(("negated", (v[0], -v[1])))
    elif isinstance(v, tuple) and len(v) == 2 and all(isinstance(c, int) and not isinstance(c, bool) for c in v):
        from py_ecc.secp256k1 import secp256k1 as _S
        out.append(("negated", (v[0], (-v[1]) % _S.P)))
    elif isinstance(v, tuple) and v and all(isinstance(c, int) and not isinstance(c, bool) for c in v):
        for i in range(len(v)):
            out.append(("component%d+hash-modulus" % i, v[:i] + (v[i] + 2 ** 61 - 1,) + v[i + 1:]))
    elif SN._is_field_el(v):
        out.append(("+1", v + type(v).one() if hasattr(type(v), "one") else v))
        out.append(("negated", -v))
    elif isinstance(v, list) and v:
        out.append(("reversed", list(reversed(v))))
        for lbl, x in _perturb(v[0])[:2]:
            out.append(("first:" + lbl, [x] + v[1:]))
    return out


def neighbour_calls(name):
    """[(label, thunk)] the operation with ONE argument replaced by a close variant"""
    cost, build = OPSM.get(name)
    f, args, kwargs = build()
    out = []
    for i, a in enumerate(args):
        for lbl, var in _perturb(a):
            def thunk(i=i, var=var):
                f2, a2, k2 = build()
                a2 = list(a2)
                a2[i] = var
                return f2(*a2, **k2)
            out.append(("arg%d:%s" % (i, lbl), thunk))
    return out


def task_neighbours(a, env):
    """history [neighbour(X), X] for every operation X and every generated neighbour: X's result must
    be the fresh-interpreter one (a memo that confuses the neighbour with X shows here)"""
    r = R("generated-neighbour-then-operation")
    lits = _lits_from_json(a["lits"])
    init_process(lits)
    fresh = a["fresh"]
    for x in a["ops"]:
        nb = neighbour_calls(x)
        for lbl, thunk in nb:
            if r.full():
                return r
            try:
                thunk()
            except Exception:  # noqa: BLE001 - the neighbour may be an invalid input; only X's result matters
                pass
            _W["log"].append("%s~%s" % (x, lbl))
            rec = step(x)
            r.ev += 2
            r.transitions += 2
            r.dn += 1
            if rec["result"] != fresh[x] or rec["state_diff"] or rec["args_mutated"]:
                # confirm in a fresh interpreter: [neighbour, X]
                try:
                    conf = fresh_run([x], lits, "0", neighbour=(x, lbl))
                except Exception:  # noqa: BLE001
                    conf = None
                if conf is not None and (conf[-1]["result"] != fresh[x] or conf[-1]["state_diff"]):
                    r.viol("C20:history-dependent-result-after-neighbour:%s" % x, ME + ":replay_neighbour",
                           {"op": x, "neighbour": lbl, "lits": a["lits"], "expect": fresh[x]},
                           "the fresh-interpreter result", rec["short"], note="after the same call with %s" % lbl)
                else:
                    r.notes["unconfirmed_neighbour_mismatches"] = r.notes.get("unconfirmed_neighbour_mismatches", 0) + 1
        r.dk.add(x)
    r.states = 1
    if a.get("sample") and a["ops"]:
        r.sample({"operation": a["ops"][0], "neighbours": [l for l, _ in neighbour_calls(a["ops"][0])][:8]})
    return r


# ------------------------------------------------------------------ many distinct calls, then the operation again
def _variant(v, j):
    """the j-th of many pairwise distinct variants of one argument (None: no variants for this type)"""
    if isinstance(v, bool) or v is None:
        return None
    if isinstance(v, int):
        return v + 1 + j
    if isinstance(v, (bytes, bytearray)):
        b = bytes(v)
        if len(b) in (48, 96):  # fixed-size encodings: keep the length (most variants are refused encodings)
            return b[:-2] + ((int.from_bytes(b[-2:], "big") + 1 + j) % 65536).to_bytes(2, "big")
        return b + (j + 1).to_bytes(2, "big")
    if isinstance(v, tuple) and len(v) == 3 and all(SN._is_field_el(c) for c in v):
        return tuple(c * (j + 2) for c in v)
    if SN._is_field_el(v) and hasattr(type(v), "one"):
        out = v
        one = type(v).one()
        for _ in range(1 + j % 7):
            out = out + one
        return out * (1 + j // 7) if j >= 7 else out
    return None


def sweep_op(name, n):
    """history: X; then n calls of X with one argument replaced by pairwise distinct variants; after 1, 2, 3,
    4, 6, 8, ... of them X again.  Returns None or (after, record) for the first X that differs."""
    cost, build = OPSM.get(name)
    f, args, kwargs = build()
    idx = [i for i, a_ in enumerate(args) if _variant(a_, 0) is not None]
    if not idx:
        return "no-variants"
    i = idx[0]
    first = step(name)
    checkpoints, c = set(), 1
    while c <= n:
        checkpoints |= {c, c + c // 2}
        c *= 2
    checkpoints.add(n)
    for j in range(1, n + 1):
        f2, a2, k2 = build()
        a2 = list(a2)
        a2[i] = _variant(a2[i], j)
        try:
            f2(*a2, **k2)
        except Exception:  # noqa: BLE001 - a variant may be an invalid input; only X's result matters
            pass
        if j in checkpoints:
            rec = step(name)
            if rec["result"] != first["result"] or rec["state_diff"]:
                return (j, rec)
    return None


def task_sweeps(a, env):
    r = R("operation-again-after-n-distinct-variant-calls")
    lits = _lits_from_json(a["lits"])
    init_process(lits)
    for x in a["ops"]:
        if r.full():
            break
        bad = sweep_op(x, a["n"])
        if bad == "no-variants":
            continue
        r.ev += a["n"] + 24
        r.transitions += a["n"] + 24
        r.dk.add(x)
        if a["fresh"].get(x) is not None and bad is None:
            continue
        if bad:
            r.viol("C20:history-dependent-result-after-many-distinct-calls:%s" % x, ME + ":replay_sweep",
                   {"op": x, "n": bad[0], "lits": a["lits"]}, "the result of the first call", bad[1]["short"],
                   note="after %d calls with pairwise distinct variants of one argument" % bad[0])
    r.states = 1
    if a.get("sample") and a["ops"]:
        r.sample({"operation": a["ops"][0], "n": a["n"], "history": "X, X(v1), X, X(v2), X, X(v3), X, X(v4), X(v5), X, ..."})
    return r


def replay_sweep(a):
    lits = _lits_from_json(a["lits"])
    init_process(lits)
    bad = sweep_op(a["op"], a["n"])
    if bad in (None, "no-variants"):
        return None
    return {"op": a["op"], "after": bad[0], "expected": "the result of the first call", "observed": bad[1]["short"],
            "state_changed": bad[1]["state_diff"][:6]}


def replay_opt(a):
    lits = _lits_from_json(a["lits"])
    r0 = fresh_run([a["op"]], lits, "0")[0]
    r1 = fresh_run([a["op"]], lits, "0", optimize=True)[0]
    return None if r0["result"] == r1["result"] else {"python": r0["short"], "python -O": r1["short"]}


def replay_neighbour(a):
    lits = _lits_from_json(a["lits"])
    init_process(lits)
    for lbl, thunk in neighbour_calls(a["op"]):
        if lbl == a["neighbour"]:
            try:
                thunk()
            except Exception:  # noqa: BLE001
                pass
            break
    rec = step(a["op"])
    if rec["state_diff"]:
        return {"state_changed": rec["state_diff"][:6]}
    if rec["result"] != a["expect"]:
        return {"op": a["op"], "after": a["neighbour"], "expected": "the fresh-interpreter result", "observed": rec["short"]}
    return None


def run_sequence(names, lits):
    init_process(lits)
    return [step(n) for n in names]


def fresh_run(names, lits, hashseed="0", timeout=900, neighbour=None, optimize=False):
    """run the sequence in a freshly started interpreter; returns the list of step records.
    neighbour=(op, label): first perform that generated neighbour call of `op`"""
    env = dict(os.environ)
    env["PYTHONHASHSEED"] = hashseed
    env["PYTHONPATH"] = ROOT + (":" + env["PYTHONPATH"] if env.get("PYTHONPATH") else "")
    env["PYTHONDONTWRITEBYTECODE"] = "1"
    env.pop("PYTHONOPTIMIZE", None)
    p = subprocess.run([sys.executable] + (["-O"] if optimize else []) + ["-m", "mc.props.C20"], cwd=ROOT, env=env, capture_output=True, text=True,
                       input=json.dumps({"ops": names, "lits": _lits_to_json(lits), "neighbour": list(neighbour) if neighbour else None}),
                       timeout=timeout)
    if p.returncode != 0:
        raise RuntimeError("fresh interpreter failed: " + p.stderr[-1500:])
    return json.loads(p.stdout.strip().splitlines()[-1])


# ------------------------------------------------------------------ tasks
def task_fresh(a, env):
    r = R("each-operation-alone-in-a-fresh-interpreter")
    lits = _lits_from_json(a["lits"])
    fresh = {}
    raced = set()
    for oi, name in enumerate(a["ops"]):
        # thorough: two interpreters (hash seeds 0 and 1) per operation; quick: one, the seed alternating
        seeds = ("0", "1") if env["tier"] == "thorough" else (("0",) if (oi + a.get("parity", 0)) % 2 == 0 else ("1",))
        recs = [fresh_run([name], lits, hs)[0] for hs in seeds]
        recs = recs + recs[:1] if len(recs) == 1 else recs
        r.ev += len(seeds)
        r.transitions += len(seeds)
        r.dk.add(name)
        base = {"ops": [name], "lits": a["lits"], "expect": None}
        if recs[0]["result"] != recs[1]["result"]:
            r.viol("C20:nondeterministic-across-interpreters:%s" % name, ME + ":replay_seq", dict(base, twice=True),
                   recs[0]["short"], recs[1]["short"])
        for rec in recs[:1]:
            if rec["state_diff"]:
                r.viol("C20:state-changed:%s" % rec["state_diff"][0], ME + ":replay_seq", base,
                       "module / class state unchanged", rec["state_diff"][:6], note=name)
            if rec["args_mutated"]:
                r.viol("C20:arguments-mutated:%s" % name, ME + ":replay_seq", base, "arguments unchanged", "mutated")
            if rec.get("invariant_broken"):
                r.viol("C20:equal-arguments-unequal-results:%s" % name, ME + ":replay_seq", base,
                       "equal results for equal arguments", rec["short"])
        fresh[name] = recs[0]["result"]
        # the same operation in an interpreter started with -O (assert statements stripped): same outcome
        cost = OPSM.get(name)[0]
        if cost <= 1 or name.split(":")[0] in ("KeyValidate", "Verify", "AggregateVerify", "FastAggregateVerify", "PopVerify", "Sign", "SkToPk", "PopProve"):
            try:
                orec = fresh_run([name], lits, seeds[0], optimize=True)[0]
            except Exception:  # noqa: BLE001
                orec = None
            if orec is not None:
                r.ev += 1
                r.transitions += 1
                if orec["result"] != recs[0]["result"]:
                    r.viol("C20:result-depends-on-interpreter-optimisation-flag:%s" % name, ME + ":replay_opt", {"op": name, "lits": a["lits"]},
                           recs[0]["short"], orec["short"], note="python -O")
        for k in recs[0].get("cache_like_changes", []):
            r.notes.setdefault("mutable_working_state_observed", {})[k] = 1
        # module state that appears at first use: explore two threads with one preemption at every point
        # where that state changes (cheapest operations only; each lazily built path once per task)
        lazy = [k for k in recs[0].get("cache_like_changes", []) if k not in raced]
        if lazy and cost <= 2:
            raced.update(lazy)
            try:
                out = race_explore(name, lazy, lits)
            except Exception as e:  # noqa: BLE001
                out = ("error", repr(e)[:200])
            r.notes.setdefault("thread_interleavings", {})[name] = str(out)[:200]
            if out[0] not in ("none", "error"):
                r.viol("C20:result-depends-on-thread-interleaving:%s" % name, ME + ":replay_race",
                       {"op": name, "paths": lazy, "k": out[0], "lits": a["lits"]}, "the single-threaded result", "%s got another result" % out[1],
                       note="thread A held at py_ecc line event %d (module state %s had just changed), the same operation run in a second thread" % (out[0], lazy[:2]))
    r.notes["fresh"] = fresh
    r.states = 1
    if a.get("sample"):
        r.sample({"fresh interpreter, operation": a["ops"][0], "outcome": recs[0]["short"][:100]})
    return r


def _check_step(r, rec, fresh, hist, lits_json):
    """compare one in-worker step with the fresh-interpreter reference; returns True if clean"""
    bad = []
    if rec["state_diff"]:
        bad.append(("state-changed:%s" % rec["state_diff"][0], "state unchanged", rec["state_diff"][:6]))
    if rec["args_mutated"]:
        bad.append(("arguments-mutated:%s" % rec["op"], "arguments unchanged", "mutated"))
    if rec["result"] != fresh[rec["op"]]:
        bad.append(("history-dependent-result:%s" % rec["op"], "the fresh-interpreter result", rec["short"]))
    if not bad:
        return True
    if rec["state_diff"]:
        # report a state change once: later steps are compared with the state as it is now
        _W["S0"] = SN.snapshot()
    seen = _W.setdefault("reported", set())
    bad = [b for b in bad if b[0] not in seen]
    if not bad:
        r.notes["repeated_violation_keys_not_reconfirmed"] = r.notes.get("repeated_violation_keys_not_reconfirmed", 0) + 1
        return False
    seen.update(b[0] for b in bad)
    # confirm on the minimal history in a fresh interpreter, then on the worker's whole log
    lits = _lits_from_json(lits_json)
    for cand in (hist, list(_W["log"])):
        try:
            recs = fresh_run(cand, lits)
        except Exception:  # noqa: BLE001
            continue
        last = recs[-1]
        if any(x["state_diff"] or x["args_mutated"] for x in recs) or last["result"] != fresh[last["op"]]:
            for key, exp, got in bad:
                r.viol("C20:" + key, ME + ":replay_seq", {"ops": cand, "lits": lits_json, "expect": fresh[cand[-1]]},
                       exp, got, note="history: %s" % cand[-6:])
            return False
    r.notes["unconfirmed_mismatches"] = r.notes.get("unconfirmed_mismatches", 0) + 1
    for key, exp, got in bad:
        r.viol("C20:" + key, ME + ":replay_seq", {"ops": list(_W["log"]), "lits": lits_json, "expect": None},
               exp, got, note="not reproduced in a fresh interpreter")
    return False


def task_adjacent(a, env):
    r = R("adjacent-ordered-pairs")
    lits = _lits_from_json(a["lits"])
    init_process(lits)
    fresh = a["fresh"]
    for x in a["as"]:
        for b in a["bs"]:
            if r.full():
                return r
            ra = step(x)
            ok = _check_step(r, ra, fresh, [x], a["lits"])
            rb = step(b)
            _check_step(r, rb, fresh, [x, b], a["lits"])
            r.ev += 2
            r.transitions += 2
            r.dn += 1
    r.states = 1
    r.notes["worker_log_length_max"] = len(_W["log"])
    if a.get("sample"):
        r.sample({"pair": [a["as"][0], a["bs"][-1]]})
    return r


def task_sequence(a, env):
    r = R(a.get("sub", "sequences"))
    lits = _lits_from_json(a["lits"])
    init_process(lits)
    fresh = a["fresh"]
    hist = []
    for x in a["seq"]:
        if r.full():
            return r
        rec = step(x)
        hist.append(x)
        _check_step(r, rec, fresh, list(hist), a["lits"])
        r.ev += 1
        r.transitions += 1
    r.dn += 1
    r.states = 1
    r.traces = 1
    if a.get("sample"):
        r.sample({"sequence": a["seq"][:3] + ["..."] + a["seq"][-2:], "length": len(a["seq"])})
    return r


def replay_seq(a):
    lits = _lits_from_json(a["lits"])
    if a.get("twice"):
        r0 = fresh_run(a["ops"], lits, "0")[-1]
        r1 = fresh_run(a["ops"], lits, "1")[-1]
        return None if r0["result"] == r1["result"] else {"hashseed0": r0["short"], "hashseed1": r1["short"]}
    recs = run_sequence(a["ops"], lits)
    for rec in recs:
        if rec.get("invariant_broken"):
            return {"op": rec["op"], "expected": "equal results for equal arguments", "observed": rec["short"]}
        if rec["state_diff"]:
            return {"after": rec["op"], "state_changed": rec["state_diff"][:8]}
        if rec["args_mutated"]:
            return {"after": rec["op"], "arguments": "mutated"}
    expect = a.get("expect")
    if expect is None:
        expect = fresh_run([a["ops"][-1]], lits)[0]["result"]
    if recs[-1]["result"] != expect:
        return {"op": recs[-1]["op"], "expected": "the fresh-interpreter result", "observed": recs[-1]["short"]}
    return None


# ------------------------------------------------------------------ plan
def run(ctx):
    ctx.rule = ("state = canonical snapshot of all py_ecc module/class data; transition = one operation of the "
                "alphabet; a case = one executed step, checked for snapshot equality, argument immutability and "
                "result equality with the fresh-interpreter run; distinct = distinct histories (pairs / sequences)")
    ctx.assumptions = [
        "a memoised sgn0 on an immutable element is not state (dropped after validation against the model)",
        "history-dependence through state outside the snapshot (closures, C-level caches) is what the "
        "pair / sequence exploration is for: results are compared, not only snapshots",
    ]
    lits = OPSM.literals()
    lj = _lits_to_json(lits)
    q = ctx.quick
    ops = [(n, c) for (n, c, _f) in OPSM.OPS if c <= (3 if q else 4)]
    names = [n for n, _ in ops]
    cheap = [n for n, c in ops if c <= 1]
    costly = [n for n, c in ops if c >= 2]
    # 1. fresh-interpreter references
    tasks = []
    nt = 16
    for i in range(nt):
        ch = names[i::nt]
        if ch:
            tasks.append(("fresh", {"ops": ch, "lits": lj, "sample": i == 0, "parity": i}))
    res = ctx.pmap(ME, tasks)
    fresh = {}
    for r in res:
        fresh.update(r.notes.get("fresh", {}))
    sub = ctx.subs.get("each-operation-alone-in-a-fresh-interpreter")
    if sub is not None:
        sub.notes.pop("fresh", None)
    # 2. histories in long-lived workers
    tasks = []
    pair_ops = cheap if q else names
    micro = [n for n, c in ops if c == 0]
    npairs = 0
    for i, x in enumerate(pair_ops):
        # quick: every ordered pair that involves a micro operation (cost class 0); pairs of two cheap
        # (class 1) operations are covered as subsequences by the total orders below. thorough: all pairs
        bs = pair_ops if (not q or x in micro) else micro
        npairs += len(bs)
        tasks.append(("adjacent", {"as": [x], "bs": bs, "lits": lj, "fresh": fresh, "sample": i == 0}))
    for i, X in enumerate(costly):
        tasks.append(("sequence", {"sub": "everything-before-and-after-each-costly-operation",
                                   "seq": cheap + [X] + cheap + [X], "lits": lj, "fresh": fresh, "sample": i == 0}))
    tasks.append(("sequence", {"sub": "total-orders-of-costly-operations", "seq": costly + costly[::-1] + costly,
                               "lits": lj, "fresh": fresh, "sample": True}))
    tasks.append(("sequence", {"sub": "total-orders-of-all-operations", "seq": names + names[::-1],
                               "lits": lj, "fresh": fresh, "sample": True}))
    nb_ops = [n for n, c in ops if c <= (1 if q else 3)]
    for i in range(0, len(nb_ops), 4):
        tasks.append(("neighbours", {"ops": nb_ops[i:i + 4], "lits": lj, "fresh": fresh, "sample": i == 0}))
    sweep_ops = [n for n, c in ops if c == 0]
    for i in range(0, len(sweep_ops), 3):
        tasks.append(("sweeps", {"ops": sweep_ops[i:i + 3], "n": 300 if q else 1100, "lits": lj, "fresh": fresh, "sample": i == 0}))
    sweep1 = [n for n, c in ops if c == 1]
    for i in range(0, len(sweep1), 2):
        tasks.append(("sweeps", {"ops": sweep1[i:i + 2], "n": 40 if q else 300, "lits": lj, "fresh": fresh}))
    if not q:
        tri = [n for n, c in ops if c == 0]
        for x in tri:
            for y in tri[::2]:
                tasks.append(("sequence", {"sub": "adjacent-triples-of-micro-operations",
                                           "seq": [s for z in tri for s in (x, y, z)], "lits": lj, "fresh": fresh}))
    ctx.bounds = {"operations": len(names), "cheap": len(cheap), "costly": len(costly),
                  "adjacent_pairs": npairs, "depth": "2 (adjacent) + long sequences" if q else
                  "2 (all adjacent pairs), 3 (micro operations), long sequences"}
    tasks.sort(key=lambda t: -len(t[1].get("seq", [])) if t[0] == "sequence" else 0)
    ctx.pmap(ME, tasks)


# ------------------------------------------------------------------ two threads, one preemption, at the points where lazily built module state changes
_MISSING = object()


def _getter(key):
    """snapshot key ("module:name" / "cls module.Class.attr") -> function returning the current object"""
    if key.startswith("cls "):
        full = key[4:]
        parts = full.split(".")
        for cut in range(len(parts) - 2, 0, -1):
            mod = sys.modules.get(".".join(parts[:cut]))
            if mod is not None:
                def g(mod=mod, rest=parts[cut:]):
                    o = mod
                    for nm in rest:
                        o = getattr(o, nm, _MISSING)
                        if o is _MISSING:
                            return _MISSING
                    return o
                return g
        return lambda: _MISSING
    mname, name = key.split(":", 1)
    return lambda: getattr(sys.modules.get(mname), name, _MISSING)


def _probe(getters):
    out = []
    for g in getters:
        v = g()
        try:
            n = len(v)
        except Exception:  # noqa: BLE001
            n = None
        fp = None
        if n is not None and n <= 64:
            try:
                fp = tuple(id(x) for x in (v.values() if isinstance(v, dict) else v))
            except Exception:  # noqa: BLE001
                fp = None
        out.append((id(v), n, fp))
    return tuple(out)


def _race_child(req, lits):
    """in a fresh interpreter.  k is None: run the operation once in a traced thread and list the line events
    (inside py_ecc) right after which the watched module state had changed.  k given: thread A runs the
    operation and is held at line event k; the operation runs to completion in a second thread; A resumes."""
    import threading
    init_process(lits)
    name, k = req["race"]["op"], req["race"].get("k")
    getters = [_getter(p) for p in req["race"]["paths"]]
    cost, build = OPSM.get(name)

    def run_op():
        f, args, kwargs = build()
        try:
            return SN.digest(("ok", SN.canon(f(*args, **kwargs))))
        except Exception as e:  # noqa: BLE001
            return SN.digest(("raise", type(e).__name__))

    st = {"n": 0, "last": _probe(getters), "points": [], "a": None, "b": None}
    paused, go = threading.Event(), threading.Event()
    a_ident = {}

    def local(frame, event, arg):
        if event == "line" and threading.get_ident() == a_ident.get("id"):
            st["n"] += 1
            if k is None:
                pr = _probe(getters)
                if pr != st["last"]:
                    st["last"] = pr
                    st["points"].append(st["n"])
            elif st["n"] == k:
                paused.set()
                go.wait(600)
        return local

    def tracer(frame, event, arg):
        return local if "/py_ecc/" in frame.f_code.co_filename else None

    def thread_a():
        a_ident["id"] = threading.get_ident()
        sys.settrace(tracer)
        try:
            st["a"] = run_op()
        finally:
            sys.settrace(None)
            paused.set()

    ta = threading.Thread(target=thread_a)
    ta.start()
    if k is not None:
        paused.wait(900)
        tb = threading.Thread(target=lambda: st.__setitem__("b", run_op()))
        tb.start()
        tb.join(900)
        go.set()
    ta.join(1800)
    after = run_op()
    return {"points": st["points"], "events": st["n"], "a": st["a"], "b": st["b"], "after": after}


def race_run(name, paths, lits, k=None, timeout=2400):
    env = dict(os.environ)
    env["PYTHONHASHSEED"] = "0"
    env["PYTHONPATH"] = ROOT + (":" + env["PYTHONPATH"] if env.get("PYTHONPATH") else "")
    env["PYTHONDONTWRITEBYTECODE"] = "1"
    p = subprocess.run([sys.executable, "-m", "mc.props.C20"], cwd=ROOT, env=env, capture_output=True, text=True,
                       input=json.dumps({"ops": [], "lits": _lits_to_json(lits), "race": {"op": name, "paths": paths, "k": k}}), timeout=timeout)
    if p.returncode != 0:
        raise RuntimeError("race interpreter failed: " + p.stderr[-1500:])
    return json.loads(p.stdout.strip().splitlines()[-1])


def race_explore(name, paths, lits, cap=40):
    """None or (k, which, solo, observed): every single preemption of thread A at a point where the watched
    module state had just changed, a second thread running the same operation meanwhile"""
    d = race_run(name, paths, lits)
    solo = d["a"]
    pts = sorted(set(d["points"] + [x + 1 for x in d["points"]]))[:cap]
    for k in pts:
        r_ = race_run(name, paths, lits, k)
        for which in ("a", "b", "after"):
            if r_[which] is not None and r_[which] != solo:
                return (k, {"a": "the preempted thread", "b": "the second thread", "after": "a later call in the same process"}[which], solo, r_[which], len(pts))
    return ("none", len(pts), d["events"])


def replay_race(a):
    lits = _lits_from_json(a["lits"])
    solo = race_run(a["op"], a["paths"], lits)["a"]
    r_ = race_run(a["op"], a["paths"], lits, a["k"])
    bad = [w for w in ("a", "b", "after") if r_[w] is not None and r_[w] != solo]
    return None if not bad else {"preempted_at_line_event": a["k"], "differs": bad}


def _main():
    req = json.loads(sys.stdin.read())
    lits = _lits_from_json(req["lits"])
    if req.get("race"):
        sys.stdout.write("\n" + json.dumps(_race_child(req, lits)) + "\n")
        return
    if req.get("neighbour"):
        init_process(lits)
        for lbl, thunk in neighbour_calls(req["neighbour"][0]):
            if lbl == req["neighbour"][1]:
                try:
                    thunk()
                except Exception:  # noqa: BLE001
                    pass
                break
    recs = run_sequence(req["ops"], lits)
    sys.stdout.write("\n" + json.dumps(recs) + "\n")


if __name__ == "__main__":
    _main()

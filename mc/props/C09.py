"""C09 - BLS outputs are the byte strings mandated by the IETF ciphersuites.

Differential enumeration against the independent model (mc.model.bls = h2c + zcash + ec models,
anchored to the published Ethereum consensus-spec vector, EIP-2333 case 0 and the RFC 9380
vectors): complete product suites x secret-key alphabet x message alphabet for SkToPk, Sign,
PopProve; Aggregate on 1-, 2-, 3-element lists incl. a repeated element and the identity.
"""
import importlib

from ..core import R, rng
from ..model import bls as MB

LEVEL = "exploration"
ME = "mc.props.C09"
R_ = MB.R


def suite_cls(s):
    return getattr(importlib.import_module("py_ecc.bls"), MB.CLASS[s])


def _call(f, *a):
    try:
        v = f(*a)
    except Exception as e:  # noqa: BLE001
        return ("raise", type(e).__name__)
    if isinstance(v, (bytes, bytearray)):
        return ("ok", bytes(v))
    return ("ok-nonbytes", repr(v)[:60])


def sk_domain(env, thorough):
    g = rng(env, "sk")
    ks = [1, 2, 3, R_ - 1, R_ - 2, 2**64, 2**254, 2**53 + 1, 2**64 - 1, 2**128 - 1, 2**200 - 3, 2**254 - 1,
          2**53 - 1] + [g.randrange(1, R_) for _ in range(3)]
    if thorough:
        ks += [g.randrange(1, R_) for _ in range(29)] + [2**k for k in range(8, 250, 31)]
    return ks


def msg_domain():
    return [b"", b"\x00", b"\x00" * 32, bytes(range(55)), bytes(range(56)), bytes(range(64)), bytes(range(65)),
            bytes(i & 0xFF for i in range(1024)), b"abc", b"\xa5" * (1 << 22)]


OWN_PK = -1  # message index meaning "the signer's own 48 public-key bytes"


def _msg(mi, sk):
    return MB.sk_to_pk(sk) if mi == OWN_PK else msg_domain()[mi]


def case(kind, suite, sk, msg):
    S = suite_cls(suite)
    if kind == "pk":
        return ("ok", MB.sk_to_pk(sk)), _call(S.SkToPk, sk)
    if kind == "sign":
        return ("ok", MB.sign(suite, sk, msg)), _call(S.Sign, sk, msg)
    return ("ok", MB.pop_prove(sk)), _call(S.PopProve, sk)


M61 = 2 ** 61 - 1


def task_outputs(a, env):
    """one key, all suites interleaved per message (one process, one call history)"""
    r = R("SkToPk/Sign/PopProve")
    msgs = msg_domain()
    # history: refused calls first (an error path must leave nothing behind)
    for s_ in a["suites"]:
        C_ = suite_cls(s_)
        for bad in (0, R_, "1"):
            _call(C_.SkToPk, bad)
            _call(C_.Sign, bad, b"m")
            if s_ == "pop":
                _call(C_.PopProve, bad)
    for skh in a["sks"]:
        sk = int(skh, 16)
        # history: the key with equal hash() (sk +- (2^61 - 1)) is used first; results ignored
        alt = sk + M61 if sk + M61 < R_ else sk - M61
        if 0 < alt < R_:
            for s_ in a["suites"]:
                C_ = suite_cls(s_)
                _call(C_.SkToPk, alt)
                _call(C_.Sign, alt, msgs[a["mis"][0]] if a["mis"] else b"m")
                if s_ == "pop":
                    _call(C_.PopProve, alt)
        # history: another key signs, then non-integers that compare equal to sk are refused, then sk is used
        from fractions import Fraction
        from decimal import Decimal
        for s_ in a["suites"]:
            C_ = suite_cls(s_)
            _call(C_.Sign, 7, b"m")
            for eqv in (float(sk) if sk < 2 ** 53 else Fraction(sk), Fraction(sk), Decimal(sk)):
                _call(C_.Sign, eqv, b"m")
                _call(C_.SkToPk, eqv)
        todo = [("pk", s, None) for s in a["suites"]]
        for mi in a["mis"]:
            todo += [("sign", s, mi) for s in a["suites"]]
        if "pop" in a["suites"]:
            # the key bytes as an ordinary message, before and after the possession proof
            # (same bytes hashed under the signature tag and under the proof tag)
            todo += [("sign", "pop", OWN_PK), ("pop", "pop", None), ("sign", "pop", OWN_PK), ("sign", "basic", OWN_PK),
                     ("sign", "aug", OWN_PK)]
        todo += [("sign", s, a["mis"][0]) for s in reversed(a["suites"])]
        for kind, suite, mi in todo:
            exp, got = case(kind, suite, sk, _msg(mi, sk) if mi is not None else None)
            r.ev += 1
            r.dk.add((kind, suite, sk, mi))
            if exp != got:
                r.viol("C09:%s:%s" % (suite, {"pk": "SkToPk", "sign": "Sign", "pop": "PopProve"}[kind]),
                       ME + ":replay", {"kind": kind, "suite": suite, "sk": skh, "mi": mi}, exp, got)
    if a.get("sample"):
        r.sample({"suites": a["suites"], "sk": a["sks"][0], "messages": [m[:8].hex() + ".." for m in msgs[:4]]})
    return r


def replay(a):
    sk = int(a["sk"], 16)
    exp, got = case(a["kind"], a["suite"], sk, _msg(a["mi"], sk) if a["mi"] is not None else None)
    return None if exp == got else {"expected": exp, "observed": got}


def agg_lists(env):
    """lists of (suite, sk, message-index) whose signatures are aggregated"""
    g = rng(env, "agg")
    k1, k2, k3 = g.randrange(1, R_), g.randrange(1, R_), g.randrange(1, R_)
    L = [
        [("basic", 1, 0)], [("basic", k1, 2)],
        [("basic", k1, 0), ("basic", k2, 1)], [("basic", k2, 1), ("basic", k1, 0)],
        [("basic", k1, 0), ("basic", k1, 0)],  # repeated element
        [("basic", k1, 0), ("basic", R_ - k1, 0)],  # sums to the identity
        [("pop", k1, 2), ("pop", k2, 2), ("pop", k3, 2)],
        [("aug", k1, 2), ("aug", k2, 3), ("aug", k3, 2)],
        [("basic", k1, 0), "INF"], ["INF"], ["INF", "INF"],
        [("basic", k1, 0), ("pop", k2, 1), ("aug", k3, 8)],
        # a proper prefix that cancels to the identity, followed by more
        [("basic", k1, 0), ("basic", R_ - k1, 0), ("basic", k2, 1)],
        [("basic", 2, 0), ("basic", 3, 0), ("basic", R_ - 5, 0), ("basic", k3, 2)],
        [("pop", k1, 2), ("pop", R_ - k1, 2), "INF", ("pop", k2, 2), ("pop", k2, 2)],
        [("basic", k1, 0), ("basic", k2, 1), ("basic", R_ - k1, 0)],
        # encodings of special curve points (y.c1 = 0, y at the sign boundary)
        [("SPECIAL", 0)], [("SPECIAL", 1)], [("SPECIAL", 2), ("basic", k1, 0)], [("SPECIAL", 3)], [("SPECIAL", 4), ("SPECIAL", 4)],
        [("SPECIAL", 5), ("SPECIAL", 0)], [("SPECIAL", 6)], [("SPECIAL", 7)], [("SPECIAL", 9), ("SPECIAL", 2)],
    ]
    return L


def _special_points():
    """curve points of E'(Fp2) with y.c1 = 0 / y at the sign boundary (cube-root construction); not
    subgroup points - Aggregate only decodes and adds"""
    from ..model import zcash

    H_ = zcash.HALF
    pts = zcash.g2_points_with_y([(t, 0) for t in range(1, 12)] + [(H_ - j, 0) for j in range(6)] + [(5, H_), (2, H_ + 1), (0, 7)])
    out = []
    for Q in pts[:6]:
        out += [Q, zcash.E2.neg(Q)]  # y and -y: both halves of the sign rule (y.c0 > (p-1)/2 when y.c1 = 0)
    return out


def agg_case(i, env):
    msgs = msg_domain()
    lst = agg_lists(env)[i]
    sigs = []
    for it in lst:
        if isinstance(it, tuple) and it[0] == "SPECIAL":
            sp = _special_points()
            sigs.append(MB.g2_bytes(sp[it[1] % len(sp)]))
        elif it == "INF":
            sigs.append(MB.g2_bytes(None))
        else:
            s, sk, mi = it
            sigs.append(MB.sign(s, sk, msgs[mi]))
    exp = ("ok", MB.aggregate(sigs))
    out = []
    for s in ("basic", "aug", "pop"):
        got = _call(suite_cls(s).Aggregate, list(sigs))
        if got != exp:
            out.append((s, exp, got))
        got = _call(suite_cls(s).Aggregate, tuple(sigs))
        if got != exp:
            out.append((s + ":tuple", exp, got))
    return out


def task_agg(a, env):
    r = R("Aggregate")
    for i in a["idx"]:
        bad = agg_case(i, env)
        r.ev += 6
        r.dk.add(i)
        for s, exp, got in bad:
            r.viol("C09:Aggregate:%s" % s.split(":")[0], ME + ":replay_agg",
                   {"i": i, "seed": env["seed"]}, exp, got)
    if a["idx"] and a["idx"][0] == 0:
        r.sample({"lists": [str(x)[:60] for x in agg_lists(env)[2:5]]})
    return r


def replay_agg(a):
    bad = agg_case(a["i"], {"seed": a["seed"], "pid": "C09", "tier": "quick"})
    return None if not bad else {"mismatches": bad}


def length_case(n):
    """Aggregate of n signatures (keys 3, 4, ..., one shared message) == the model's sum, for one list length"""
    C = suite_cls("pop")
    sigs = [MB.sign("pop", 3 + i, b"len") for i in range(n)]
    want = ("ok", MB.g2_bytes(MB.core_sign_point(sum(3 + i for i in range(n)) % R_, b"len", MB.DST["pop"])))
    got = _call(C.Aggregate, sigs)
    got = ("ok", bytes(got[1])) if got[0] == "ok" and isinstance(got[1], (bytes, bytearray)) else got
    return want, got


def task_lengths(a, env):
    r = R("Aggregate:every-list-length")
    for n in a["ns"]:
        exp, got = length_case(n)
        r.ev += 1
        r.dk.add(n)
        if exp != got:
            r.viol("C09:Aggregate:list-length", ME + ":replay_length", {"n": n}, exp, got, note="%d signatures" % n)
    r.sample({"lengths": "%d..%d" % (a["ns"][0], a["ns"][-1])})
    return r


def replay_length(a):
    exp, got = length_case(a["n"])
    return None if exp == got else {"expected": exp, "observed": got}


def deep_case(suite, depth):
    """SkToPk / Sign / PopProve called with `depth` caller frames on the stack (interpreter's default
    recursion limit): the model's bytes or RecursionError, never other bytes"""
    import sys
    import inspect
    C = suite_cls(suite)
    sk = 0x1B2C3D4E5F60718293A4B5C6D7E8F9
    want = {"pk": MB.sk_to_pk(sk), "sig": MB.sign(suite, sk, b"deep"), "pop": MB.pop_prove(sk) if suite == "pop" else None}

    def deep(n_, f):
        return f() if n_ <= 0 else deep(n_ - 1, f)

    out = []
    for what, f in (("pk", lambda: C.SkToPk(sk)), ("sig", lambda: C.Sign(sk, b"deep"))) + ((("pop", lambda: C.PopProve(sk)),) if suite == "pop" else ()):
        old = sys.getrecursionlimit()
        try:
            sys.setrecursionlimit(max(1000, len(inspect.stack(0)) + 60))
            got = bytes(deep(depth, f))
        except RecursionError:
            got = None
        except Exception as e:  # noqa: BLE001
            got = "raise " + type(e).__name__
        finally:
            sys.setrecursionlimit(old)
        if got is not None:
            out.append((what, want[what], got))
    return out


def task_deep(a, env):
    r = R("calls-from-a-deep-caller-stack")
    for suite in a["suites"]:
        for depth in range(80, 990, a["step"]):
            for what, exp, got in deep_case(suite, depth):
                r.ev += 1
                r.dk.add((suite, depth, what))
                if exp != got:
                    r.viol("C09:%s:deep-stack:%s" % (suite, what), ME + ":replay_deep", {"suite": suite, "depth": depth}, exp, got,
                           note="%d caller frames" % depth)
    r.sample({"depths": "80, %d, ... below the default recursion limit" % (80 + a["step"]), "accepted": "the model's bytes or RecursionError"})
    return r


def replay_deep(a):
    for what, exp, got in deep_case(a["suite"], a["depth"]):
        if exp != got:
            return {"what": what, "expected": exp, "observed": got}
    return None


def run(ctx):
    ctx.rule = "one case per (function, suite, secret key, message); all distinct"
    ctx.assumptions = ["the model is independent of py_ecc and anchored to published vectors at setup",
                       "keys outside the alphabet are not covered (the ladder is covered for all scalars on small curves by C07)"]
    sks = sk_domain(ctx.env, not ctx.quick)
    msgs = msg_domain()
    mis = list(range(len(msgs)))
    ctx.bounds = {"secret_keys": len(sks), "messages": len(msgs), "suites": 3, "aggregate_lists": len(agg_lists(ctx.env))}
    tasks = []
    for i, sk in enumerate(sks):
        m = [x for x in mis if x != 9] if (not ctx.quick or i < 5) else [0, 2, 7]
        if i == 0:
            m = m + [9]
        for ch in ([m[:5], m[5:]] if len(m) > 5 else [m]):
            tasks.append(("outputs", {"suites": ["basic", "aug", "pop"], "sks": [hex(sk)], "mis": ch, "sample": i == 0}))
    n = len(agg_lists(ctx.env))
    for i in range(n):
        tasks.append(("agg", {"idx": [i]}))
    for s_ in ("basic", "aug", "pop"):
        tasks.append(("deep", {"suites": [s_], "step": 130 if ctx.quick else 45}))
    top = 33 if ctx.quick else 96
    for lo in range(4):
        tasks.append(("lengths", {"ns": list(range(1 + lo, top, 4))}))
    ctx.pmap(ME, tasks)

"""C20 alphabet: ~90 operations over every public area of py_ecc.  Each operation builds its
arguments from literals, and names the public callable; the harness snapshots the arguments,
calls, snapshots again, and canonicalises the result.  Operations are chosen to collide: the same
operator on bn128 / bls12-381 / ad-hoc small-field classes, sgn0 on shared constants, several
users of the Frobenius table, of the isogeny tables, of the ciphersuite tags; error paths."""
import hashlib
import importlib

I = importlib.import_module

# cost classes: 0 = micro (< 2 ms), 1 = cheap (< 40 ms), 2 = medium (< 250 ms), 3 = costly (> 250 ms)
OPS = []
_BY_NAME = {}


def op(name, cost):
    def deco(f):
        OPS.append((name, cost, f))
        _BY_NAME[name] = (cost, f)
        return f
    return deco


def get(name):
    return _BY_NAME[name]


FAMS = {"bn_ref": ("py_ecc.fields", "bn128_"), "bls_ref": ("py_ecc.fields", "bls12_381_"),
        "bn_opt": ("py_ecc.fields", "optimized_bn128_"), "bls_opt": ("py_ecc.fields", "optimized_bls12_381_")}


def _F(fam, kind):
    m, pre = FAMS[fam]
    return getattr(I(m), pre + kind)


# ------------------------------------------------------------------ fields
for _fam in FAMS:
    def _mk(fam):
        @op("FQ.mul+add:%s" % fam, 0)
        def _a():
            FQ = _F(fam, "FQ")
            return (lambda a, b: a * b + a - b, [FQ(3), FQ(FQ.field_modulus - 5)], {})

        @op("FQ.inv/div/pow:%s" % fam, 0)
        def _b():
            FQ = _F(fam, "FQ")
            return (lambda a, b: (a / b) ** 5 + 7 / a, [FQ(12345), FQ(67)], {})

        @op("FQ2.mul/inv/sgn0:%s" % fam, 0)
        def _c():
            FQ2 = _F(fam, "FQ2")
            return (lambda a, b: (a * b, a.inv(), getattr(a / b, "sgn0", None), -a == b),
                    [FQ2([1, 2]), FQ2([3, FQ2.field_modulus - 1])], {})

        @op("FQ12.mul/inv/pow:%s" % fam, 1)
        def _d():
            FQ12 = _F(fam, "FQ12")
            return (lambda a, b: (a * b, a.inv(), b ** 7, a / b, a * 3, FQ12.one(), FQ12.zero()),
                    [FQ12(list(range(1, 13))), FQ12([5, 0, 0, 7] + [0] * 8)], {})
    _mk(_fam)


@op("subclass:ref:GF(7)", 0)
def _o():
    FQ = I("py_ecc.fields.field_elements").FQ
    def f():
        C = type("F7", (FQ,), {"field_modulus": 7})
        return (C(3) * C(5) / C(2), C(6) ** 100, C.one(), -C(1))
    return (f, [], {})


@op("subclass:opt:GF(13)", 0)
def _o():
    FQ = I("py_ecc.fields.optimized_field_elements").FQ
    def f():
        C = type("F13", (FQ,), {"field_modulus": 13})
        return (C(3) * C(5) / C(2), C(6) ** 100, C(12).sgn0, 5 - C(7))
    return (f, [], {})


@op("subclass:opt:GF(7^2)", 0)
def _o():
    M = I("py_ecc.fields.optimized_field_elements")
    def f():
        C = type("F49", (M.FQ2,), {"field_modulus": 7, "FQ2_MODULUS_COEFFS": (1, 0)})
        a, b = C([1, 2]), C([3, 4])
        return (a * b, a / b, a.inv() * a, (a * 6).sgn0)
    return (f, [], {})


@op("subclass:ref:GF(5^2)", 0)
def _o():
    M = I("py_ecc.fields.field_elements")
    def f():
        C = type("F25", (M.FQ2,), {"field_modulus": 5, "FQ2_MODULUS_COEFFS": (2, 0)})
        a, b = C([1, 2]), C([3, 4])
        return (a * b, a / b, a.inv() * a, a ** 24)
    return (f, [], {})


@op("FQP.generic:opt", 0)
def _o():
    M = I("py_ecc.fields")
    def f():
        x = M.optimized_bls12_381_FQP([1, 2, 3], modulus_coeffs=(2, 0, 1))
        return (x * x, x.sgn0, x + x, x * 7)
    return (f, [], {})


# ------------------------------------------------------------------ curves
for _mod in ("py_ecc.bn128", "py_ecc.bls12_381", "py_ecc.optimized_bn128", "py_ecc.optimized_bls12_381"):
    def _mk(mod):
        short = mod.split(".", 1)[1]

        @op("curve.add/double/neg/eq:%s" % short, 1)
        def _a():
            M = I(mod)
            def f(G1, G2):
                P = M.add(G1, M.double(G1))
                Q = M.add(M.double(G2), M.neg(G2))
                return (P, Q, M.eq(Q, G2), M.is_on_curve(P, M.b), M.is_on_curve(Q, M.b2), M.is_inf(M.add(G1, M.neg(G1))))
            return (f, [M.G1, M.G2], {})

        @op("curve.multiply:%s" % short, 1)
        def _b():
            M = I(mod)
            return (lambda G1, G2: (M.multiply(G1, 77), M.multiply(G2, 9), M.multiply(G1, M.curve_order)), [M.G1, M.G2], {})

        @op("curve.twist:%s" % short, 1)
        def _c():
            M = I(mod)
            return (lambda G2: (M.twist(G2), M.is_on_curve(M.twist(G2), M.b12), M.G12), [M.G2], {})
    _mk(_mod)


@op("curve.normalize:optimized_bls12_381", 0)
def _o():
    M = I("py_ecc.optimized_bls12_381")
    return (lambda P: M.normalize(P), [M.double(M.G1)], {})


# ------------------------------------------------------------------ pairings
@op("pairing:optimized_bls12_381", 3)
def _o():
    M = I("py_ecc.optimized_bls12_381")
    return (M.pairing, [M.G2, M.G1], {})


@op("pairing:optimized_bn128", 3)
def _o():
    M = I("py_ecc.optimized_bn128")
    return (M.pairing, [M.G2, M.G1], {})


@op("pairing-split+final_exponentiate:optimized_bls12_381", 3)
def _o():
    M = I("py_ecc.optimized_bls12_381")
    return (lambda Q, P: M.final_exponentiate(M.pairing(Q, P, final_exponentiate=False)), [M.double(M.G2), M.G1], {})


@op("final_exponentiate:optimized_bls12_381", 2)
def _o():
    M = I("py_ecc.optimized_bls12_381")
    return (M.final_exponentiate, [M.FQ12(list(range(2, 14)))], {})


@op("final_exponentiate:optimized_bn128", 2)
def _o():
    M = I("py_ecc.optimized_bn128")
    return (M.final_exponentiate, [M.FQ12(list(range(2, 14)))], {})


@op("pairing:off-curve-error:optimized_bls12_381", 0)
def _o():
    M = I("py_ecc.optimized_bls12_381")
    return (M.pairing, [M.G2, (M.FQ(1), M.FQ(1), M.FQ(1))], {})


@op("pairing:infinity:optimized_bn128", 0)
def _o():
    M = I("py_ecc.optimized_bn128")
    return (M.pairing, [M.G2, M.Z1], {})


@op("pairing:bn128(reference)", 4)
def _o():
    M = I("py_ecc.bn128")
    return (M.pairing, [M.G2, M.G1], {})


# ------------------------------------------------------------------ hashing / hash to curve
@op("expand_message_xmd", 0)
def _o():
    H = I("py_ecc.bls.hash")
    return (H.expand_message_xmd, [b"abc", b"QUUX-V01-CS02", 100, hashlib.sha256], {})


@op("hash_to_field_FQ2", 0)
def _o():
    H = I("py_ecc.bls.hash_to_curve")
    return (H.hash_to_field_FQ2, [b"abc", 2, b"QUUX-V01-CS02", hashlib.sha256], {})


@op("hash_to_G2", 2)
def _o():
    H = I("py_ecc.bls.hash_to_curve")
    return (H.hash_to_G2, [b"abc", b"QUUX-V01-CS02-with-BLS12381G2_XMD:SHA-256_SSWU_RO_", hashlib.sha256], {})


@op("hash_to_G2:other-dst", 2)
def _o():
    H = I("py_ecc.bls.hash_to_curve")
    return (H.hash_to_G2, [b"abc", b"another tag", hashlib.sha256], {})


@op("hash_to_G1", 1)
def _o():
    H = I("py_ecc.bls.hash_to_curve")
    return (H.hash_to_G1, [b"abc", b"QUUX-V01-CS02-with-BLS12381G1_XMD:SHA-256_SSWU_RO_", hashlib.sha256], {})


@op("map_to_curve_G2:eta-branch", 1)
def _o():
    H = I("py_ecc.bls.hash_to_curve")
    FQ2 = I("py_ecc.fields").optimized_bls12_381_FQ2
    return (H.map_to_curve_G2, [FQ2([1, 1])], {})


@op("map_to_curve_G2:square-branch", 1)
def _o():
    H = I("py_ecc.bls.hash_to_curve")
    FQ2 = I("py_ecc.fields").optimized_bls12_381_FQ2
    return (H.map_to_curve_G2, [FQ2([0, 1])], {})


@op("map_to_curve_G2:u=0", 1)
def _o():
    H = I("py_ecc.bls.hash_to_curve")
    FQ2 = I("py_ecc.fields").optimized_bls12_381_FQ2
    return (H.map_to_curve_G2, [FQ2([0, 0])], {})


@op("map_to_curve_G1", 1)
def _o():
    H = I("py_ecc.bls.hash_to_curve")
    FQ = I("py_ecc.fields").optimized_bls12_381_FQ
    return (H.map_to_curve_G1, [FQ(5)], {})


@op("iso_map_G2+clear_cofactor_G2", 2)
def _o():
    M = I("py_ecc.optimized_bls12_381")
    FQ2 = M.FQ2
    def f(u):
        x, y, z = M.optimized_swu_G2(u)
        return M.multiply_clear_cofactor_G2(M.iso_map_G2(x, y, z))
    return (f, [FQ2([7, 9])], {})


# ------------------------------------------------------------------ point compression
@op("compress_G1/decompress_G1", 1)
def _o():
    PC = I("py_ecc.bls.point_compression")
    M = I("py_ecc.optimized_bls12_381")
    return (lambda P: (PC.compress_G1(P), PC.decompress_G1(PC.compress_G1(P)), PC.compress_G1(M.Z1)), [M.multiply(M.G1, 5)], {})


@op("compress_G2/decompress_G2", 1)
def _o():
    PC = I("py_ecc.bls.point_compression")
    M = I("py_ecc.optimized_bls12_381")
    return (lambda P: (PC.compress_G2(P), PC.decompress_G2(PC.compress_G2(P)), PC.compress_G2(M.Z2)), [M.multiply(M.G2, 5)], {})


@op("decompress_G2:error", 0)
def _o():
    PC = I("py_ecc.bls.point_compression")
    return (PC.decompress_G2, [(1 << 383 | 5, 1 << 383)], {})


@op("decompress_G1:infinity+error", 0)
def _o():
    PC = I("py_ecc.bls.point_compression")
    def f(a, b):
        out = [PC.decompress_G1(a)]
        try:
            PC.decompress_G1(b)
        except ValueError as e:
            out.append("ValueError")
        return out
    return (f, [(1 << 383) | (1 << 382), 5], {})


@op("G1_to_pubkey/pubkey_to_G1", 1)
def _o():
    G = I("py_ecc.bls.g2_primitives")
    M = I("py_ecc.optimized_bls12_381")
    return (lambda P: (G.G1_to_pubkey(P), G.pubkey_to_G1(G.G1_to_pubkey(P)), G.subgroup_check(P)), [M.multiply(M.G1, 9)], {})


# ------------------------------------------------------------------ HKDF / KeyGen
@op("hkdf_extract+expand", 0)
def _o():
    H = I("py_ecc.bls.hash")
    return (lambda s, k, i: bytes(H.hkdf_expand(H.hkdf_extract(s, k), i, 82)), [b"salt", b"ikm" * 10, bytearray(b"info")], {})


@op("KeyGen", 0)
def _o():
    B = I("py_ecc.bls")
    return (B.G2ProofOfPossession.KeyGen, [b"\x01" * 32, b"info"], {})


# ------------------------------------------------------------------ BLS suites (inputs = literals from the model, see bind())
SUITES = {"basic": "G2Basic", "aug": "G2MessageAugmentation", "pop": "G2ProofOfPossession"}
LIT = {}  # filled by bind(): literal byte strings computed by the independent model


def bind(lits):
    LIT.clear()
    LIT.update(lits)


def literals():
    """byte-string literals the BLS operations take as inputs (computed by the model)"""
    from ..model import bls as MB

    sk1, sk2 = 0x1234567890ABCDEF1234567890ABCDEF, 0x0FEDCBA0987654321
    out = {"sk1": sk1, "sk2": sk2, "pk1": MB.sk_to_pk(sk1), "pk2": MB.sk_to_pk(sk2), "pop1": MB.pop_prove(sk1)}
    out["pk1neg"] = MB.g1_bytes(MB.E1.neg(MB.pk_point(sk1)))
    out["sigpk1:pop"] = MB.sign("pop", sk1, out["pk1"])
    out["sigpk1:basic"] = MB.sign("basic", sk1, out["pk1"])
    for s in SUITES:
        out["sig1:" + s] = MB.sign(s, sk1, b"msg one")
        out["sig2:" + s] = MB.sign(s, sk2, b"msg two")
        out["sig2same:" + s] = MB.sign(s, sk2, b"msg one")
        out["agg:" + s] = MB.aggregate([out["sig1:" + s], out["sig2:" + s]])
        out["aggsame:" + s] = MB.aggregate([out["sig1:" + s], out["sig2same:" + s]])
    return out


for _s in SUITES:
    def _mk(s):
        def C():
            return getattr(I("py_ecc.bls"), SUITES[s])

        @op("SkToPk:%s" % s, 1)
        def _a():
            return (C().SkToPk, [LIT["sk1"]], {})

        @op("Sign:%s" % s, 2)
        def _b():
            return (C().Sign, [LIT["sk1"], b"msg one"], {})

        @op("Verify:valid:%s" % s, 3)
        def _c():
            return (C().Verify, [LIT["pk1"], b"msg one", LIT["sig1:" + s]], {})

        @op("Verify:wrong-message:%s" % s, 3)
        def _d():
            return (C().Verify, [LIT["pk1"], b"msg two", LIT["sig1:" + s]], {})

        @op("Verify:malformed:%s" % s, 0)
        def _e():
            return (C().Verify, [LIT["pk1"], b"msg one", b"\x00" * 96], {})

        @op("Aggregate:%s" % s, 1)
        def _f():
            return (C().Aggregate, [[LIT["sig1:" + s], LIT["sig2:" + s]]], {})

        @op("AggregateVerify:%s" % s, 3)
        def _g():
            return (C().AggregateVerify, [[LIT["pk1"], LIT["pk2"]], [b"msg one", b"msg two"], LIT["agg:" + s]], {})

        @op("KeyValidate:%s" % s, 1)
        def _h():
            return (lambda a, b: (C().KeyValidate(a), C().KeyValidate(b)), [LIT["pk2"], b"\xc0" + b"\x00" * 47], {})

        @op("SkToPk:rejected:%s" % s, 0)
        def _i():
            return (C().SkToPk, [0], {})
    _mk(_s)


@op("PopProve", 2)
def _o():
    return (I("py_ecc.bls").G2ProofOfPossession.PopProve, [LIT["sk1"]], {})


@op("PopVerify", 3)
def _o():
    return (I("py_ecc.bls").G2ProofOfPossession.PopVerify, [LIT["pk1"], LIT["pop1"]], {})


@op("FastAggregateVerify", 3)
def _o():
    return (I("py_ecc.bls").G2ProofOfPossession.FastAggregateVerify,
            [[LIT["pk1"], LIT["pk2"]], b"msg one", LIT["aggsame:pop"]], {})


@op("_AggregatePKs", 1)
def _o():
    return (I("py_ecc.bls").G2ProofOfPossession._AggregatePKs, [[LIT["pk1"], LIT["pk2"]]], {})


# ------------------------------------------------------------------ secp256k1
@op("secp256k1.privtopub", 1)
def _o():
    S = I("py_ecc.secp256k1")
    return (S.privtopub, [b"\x07" * 32], {})


@op("secp256k1.add+multiply", 1)
def _o():
    S = I("py_ecc.secp256k1.secp256k1")
    return (lambda: (S.add(S.G, S.multiply(S.G, 5)), S.multiply(S.G, -3), S.add(S.G, (0, 0))), [], {})


@op("secp256k1.sign+recover", 1)
def _o():
    S = I("py_ecc.secp256k1")
    def f(h, k):
        sig = S.ecdsa_raw_sign(h, k)
        return (sig, S.ecdsa_raw_recover(h, sig))
    return (f, [b"\x35" * 32, b"\x46" * 32], {})


@op("secp256k1.recover:error", 0)
def _o():
    S = I("py_ecc.secp256k1")
    return (S.ecdsa_raw_recover, [b"\x35" * 32, (29, 5, 7)], {})


# ------------------------------------------------------------------ collisions: equal inputs, one parameter differs
@op("hash_to_G2:sha512-same-msg-and-dst", 2)
def _o():
    H = I("py_ecc.bls.hash_to_curve")
    return (H.hash_to_G2, [b"abc", b"QUUX-V01-CS02-with-BLS12381G2_XMD:SHA-256_SSWU_RO_", hashlib.sha512], {})


@op("hash_to_G1:other-dst", 1)
def _o():
    H = I("py_ecc.bls.hash_to_curve")
    return (H.hash_to_G1, [b"abc", b"another tag", hashlib.sha256], {})


@op("expand_message_xmd:sha512-same-inputs", 0)
def _o():
    H = I("py_ecc.bls.hash")
    return (H.expand_message_xmd, [b"abc", b"QUUX-V01-CS02", 100, hashlib.sha512], {})


@op("hash_to_field_FQ2:count3-same-inputs", 0)
def _o():
    H = I("py_ecc.bls.hash_to_curve")
    return (H.hash_to_field_FQ2, [b"abc", 3, b"QUUX-V01-CS02", hashlib.sha256], {})


@op("signature_to_G2:S", 1)
def _o():
    G = I("py_ecc.bls.g2_primitives")
    return (G.signature_to_G2, [LIT["sig1:basic"]], {})


@op("signature_to_G2:-S(sign-flag-flipped)", 1)
def _o():
    G = I("py_ecc.bls.g2_primitives")
    s = LIT["sig1:basic"]
    return (G.signature_to_G2, [bytes([s[0] ^ 0x20]) + s[1:]], {})


@op("pubkey_to_G1:P", 1)
def _o():
    G = I("py_ecc.bls.g2_primitives")
    return (G.pubkey_to_G1, [LIT["pk1"]], {})


@op("pubkey_to_G1:-P(sign-flag-flipped)", 1)
def _o():
    G = I("py_ecc.bls.g2_primitives")
    s = LIT["pk1"]
    return (G.pubkey_to_G1, [bytes([s[0] ^ 0x20]) + s[1:]], {})


@op("pairing:fe=False-same-points:optimized_bls12_381", 2)
def _o():
    M = I("py_ecc.optimized_bls12_381")
    return (lambda Q, P: M.pairing(Q, P, final_exponentiate=False), [M.G2, M.G1], {})


@op("pairing:fe=False-same-points:optimized_bn128", 2)
def _o():
    M = I("py_ecc.optimized_bn128")
    return (lambda Q, P: M.pairing(Q, P, final_exponentiate=False), [M.G2, M.G1], {})


@op("pairing:scaled-representatives:optimized_bls12_381", 3)
def _o():
    M = I("py_ecc.optimized_bls12_381")
    Q = tuple(c * 3 for c in M.G2)
    P = tuple(c * 5 for c in M.G1)
    return (M.pairing, [Q, P], {})


for _s in SUITES:
    def _mk2(s):
        @op("Verify:negated-signature:%s" % s, 3)
        def _a():
            C = getattr(I("py_ecc.bls"), SUITES[s])
            sg = LIT["sig1:" + s]
            return (C.Verify, [LIT["pk1"], b"msg one", bytes([sg[0] ^ 0x20]) + sg[1:]], {})

        @op("Verify:other-suite-signature:%s" % s, 3)
        def _b():
            C = getattr(I("py_ecc.bls"), SUITES[s])
            other = {"basic": "aug", "aug": "pop", "pop": "basic"}[s]
            return (C.Verify, [LIT["pk1"], b"msg one", LIT["sig1:" + other]], {})

        @op("Sign:other-key-same-message:%s" % s, 2)
        def _c():
            C = getattr(I("py_ecc.bls"), SUITES[s])
            return (C.Sign, [LIT["sk2"], b"msg one"], {})
    _mk2(_s)


@op("KeyGen:bytearray-key_info", 0)
def _o():
    B = I("py_ecc.bls")
    return (B.G2Basic.KeyGen, [bytearray(b"\x01" * 32), bytearray(b"info")], {})


@op("hkdf_expand:bytearray-twice", 0)
def _o():
    H = I("py_ecc.bls.hash")
    def f(prk, info):
        a = bytes(H.hkdf_expand(prk, info, 64))
        b = bytes(H.hkdf_expand(prk, info, 64))
        return (a, b, a == b)
    return (f, [bytearray(b"k" * 32), bytearray(b"info")], {})


@op("multiply:same-point-other-scalar:optimized_bls12_381", 1)
def _o():
    M = I("py_ecc.optimized_bls12_381")
    return (lambda G1, G2: (M.multiply(G1, 78), M.multiply(G2, 10)), [M.G1, M.G2], {})


@op("FQ12.pow:same-base-other-exponent:bls_opt", 1)
def _o():
    FQ12 = _F("bls_opt", "FQ12")
    return (lambda a: (a ** 8, a ** FQ12.field_modulus), [FQ12([5, 0, 0, 7] + [0] * 8)], {})


# ------------------------------------------------------------------ byte-like (non-bytes) arguments
for _s in SUITES:
    def _mk3(s):
        @op("KeyValidate:memoryview:%s" % s, 1)
        def _a():
            C = getattr(I("py_ecc.bls"), SUITES[s])
            return (lambda k: C.KeyValidate(memoryview(k)), [LIT["pk1"]], {})

        @op("Verify:memoryview-key:%s" % s, 1)
        def _b():
            C = getattr(I("py_ecc.bls"), SUITES[s])
            return (lambda k, m, sg: C.Verify(memoryview(k), m, sg), [LIT["pk1"], b"msg one", LIT["sig1:" + s]], {})
    _mk3(_s)


@op("KeyValidate:bytearray", 1)
def _o():
    return (I("py_ecc.bls").G2Basic.KeyValidate, [bytearray(LIT["pk1"])], {})


@op("Aggregate:tuple-and-repeated", 1)
def _o():
    C = I("py_ecc.bls").G2Basic
    return (C.Aggregate, [(LIT["sig1:basic"], LIT["sig1:basic"], LIT["sig2:basic"])], {})


@op("expand_message_xmd:sha224-same-inputs", 0)
def _o():
    H = I("py_ecc.bls.hash")
    return (H.expand_message_xmd, [b"abc", b"QUUX-V01-CS02", 100, hashlib.sha224], {})


@op("secp256k1.sign-again-other-key", 1)
def _o():
    S = I("py_ecc.secp256k1")
    return (S.ecdsa_raw_sign, [b"\x35" * 32, b"\x47" * 32], {})


# ------------------------------------------------------------------ the key bytes as an ordinary message (two tags, one suite)
@op("Sign:message-is-own-pk:pop", 2)
def _o():
    return (I("py_ecc.bls").G2ProofOfPossession.Sign, [LIT["sk1"], LIT["pk1"]], {})


@op("Verify:message-is-own-pk:pop", 3)
def _o():
    return (I("py_ecc.bls").G2ProofOfPossession.Verify, [LIT["pk1"], LIT["pk1"], LIT["sigpk1:pop"]], {})


@op("Verify:message-is-own-pk:basic", 3)
def _o():
    return (I("py_ecc.bls").G2Basic.Verify, [LIT["pk1"], LIT["pk1"], LIT["sigpk1:basic"]], {})


@op("PopVerify:message-signature-presented-as-proof", 3)
def _o():
    return (I("py_ecc.bls").G2ProofOfPossession.PopVerify, [LIT["pk1"], LIT["sigpk1:pop"]], {})


@op("hash_to_G2:long-message", 2)
def _o():
    H = I("py_ecc.bls.hash_to_curve")
    return (H.hash_to_G2, [b"\x5a" * 70001, b"another tag", hashlib.sha256], {})


@op("hkdf_extract:bytearray-mutated-between-calls", 0)
def _o():
    H = I("py_ecc.bls.hash")
    def f(salt, ikm):
        a = bytes(H.hkdf_extract(salt, ikm))
        salt[0] ^= 0x55
        b = bytes(H.hkdf_extract(salt, ikm))
        salt[0] ^= 0x55
        return (a, b, bytes(H.hkdf_extract(salt, ikm)))
    return (f, [bytearray(b"salt-salt"), bytearray(b"ikm" * 5)], {})


# ------------------------------------------------------------------ elements carrying FQ-object coefficients
for _fam in ("bn_opt", "bls_opt"):
    def _mk4(fam):
        @op("FQ2.inv/div:fq-object-coefficients:%s" % fam, 0)
        def _a():
            FQ, FQ2 = _F(fam, "FQ"), _F(fam, "FQ2")
            return (lambda x, y: (x.inv(), y / x, x * x, x.sgn0, (x * 2).sgn0, (3 * x).sgn0, (-x).sgn0),
                    [FQ2([FQ(3), FQ(4)]), FQ2([FQ(5), FQ(7)])], {})

        @op("FQ12.inv:fq-object-coefficients:%s" % fam, 1)
        def _b():
            FQ, FQ12 = _F(fam, "FQ"), _F(fam, "FQ12")
            return (lambda x: (x.inv(), x * x, x.sgn0, (x * 2).sgn0), [FQ12([FQ(i + 1) for i in range(12)])], {})

        @op("FQ2.sgn0-then-scale:%s" % fam, 0)
        def _c():
            FQ2 = _F(fam, "FQ2")
            def f(x):
                a = x.sgn0
                return (a, (x * 2).sgn0, (2 * x).sgn0, (x * 3).sgn0, (x + x).sgn0, (x * x).sgn0)
            return (f, [FQ2([5, 7])], {})
    _mk4(_fam)


@op("normalize/compress_G2:fq-object-z", 1)
def _o():
    M = I("py_ecc.optimized_bls12_381")
    PC = I("py_ecc.bls.point_compression")
    FQ, FQ2 = M.FQ, M.FQ2
    def f(P):
        return (M.normalize(P), PC.compress_G2(P), M.normalize(P))
    G = M.G2
    lam = FQ2([FQ(3), FQ(4)])
    return (f, [(G[0] * lam, G[1] * lam, lam)], {})


@op("expand_message_xmd:bytearray-msg-and-dst-twice", 0)
def _o():
    H = I("py_ecc.bls.hash")
    def f(m, d):
        return (H.expand_message_xmd(m, d, 40, hashlib.sha256), H.expand_message_xmd(m, d, 40, hashlib.sha256))
    return (f, [bytearray(b"abc"), bytearray(b"QUUX-V01-CS02")], {})


@op("hash_to_G2:bytearray-dst", 2)
def _o():
    H = I("py_ecc.bls.hash_to_curve")
    return (H.hash_to_G2, [b"abc", bytearray(b"another tag"), hashlib.sha256], {})


@op("G1_to_pubkey:off-curve-triple-sharing-x-with-pk1", 1)
def _o():
    G = I("py_ecc.bls.g2_primitives")
    M = I("py_ecc.optimized_bls12_381")
    def f(pkb):
        P = G.pubkey_to_G1(pkb)
        x, y = M.normalize(P)
        return (G.G1_to_pubkey((x, y + 1, M.FQ(1))), G.G1_to_pubkey((x, y - 1, M.FQ(1))))
    return (f, [LIT["pk1"]], {})


@op("compress_G1:non-subgroup-and-scaled", 1)
def _o():
    PC = I("py_ecc.bls.point_compression")
    M = I("py_ecc.optimized_bls12_381")
    return (lambda: (PC.compress_G1((M.FQ(0), M.FQ(2), M.FQ(1))), PC.compress_G1((M.FQ(0), M.FQ(6), M.FQ(3)))), [], {})


# ------------------------------------------------------------------ numbers that compare equal to a valid int key
for _s in SUITES:
    def _mk5(s):
        @op("SkToPk:Fraction-equal-to-sk1:%s" % s, 0)
        def _a():
            from fractions import Fraction
            C = getattr(I("py_ecc.bls"), SUITES[s])
            return (C.SkToPk, [Fraction(LIT["sk1"])], {})

        @op("Sign:Fraction-equal-to-sk1:%s" % s, 0)
        def _b():
            from fractions import Fraction
            C = getattr(I("py_ecc.bls"), SUITES[s])
            return (C.Sign, [Fraction(LIT["sk1"]), b"msg one"], {})
    _mk5(_s)


@op("PopProve:Fraction-equal-to-sk1", 0)
def _o():
    from fractions import Fraction
    return (I("py_ecc.bls").G2ProofOfPossession.PopProve, [Fraction(LIT["sk1"])], {})


# ------------------------------------------------------------------ field classes derived from an already used concrete class
_SUBCLS = {}


def _subclasses(fam):
    """module-level (persistent) classes: A over GF(7)[u]/(u^2+1), B = subclass of A over GF(11)"""
    if fam not in _SUBCLS:
        M = I("py_ecc.fields.field_elements" if fam == "ref" else "py_ecc.fields.optimized_field_elements")
        A = type("C20_A_%s" % fam, (M.FQ2,), {"field_modulus": 7, "FQ2_MODULUS_COEFFS": (1, 0)})
        Bc = type("C20_B_%s" % fam, (A,), {"field_modulus": 11, "FQ2_MODULUS_COEFFS": (1, 0)})
        _SUBCLS[fam] = (A, Bc)
    return _SUBCLS[fam]


for _fam in ("ref", "opt"):
    def _mk6(fam):
        @op("derived-class:parent-used:%s" % fam, 0)
        def _a():
            def f():
                A, _B = _subclasses(fam)
                x, y = A([3, 4]), A([5, 6])
                return (x * y, x + y, x.inv(), x / y)
            return (f, [], {})

        @op("derived-class:child-with-other-prime-used:%s" % fam, 0)
        def _b():
            def f():
                _A, Bc = _subclasses(fam)
                x, y = Bc([3, 4]), Bc([9, 10])
                return (x * y, x + y, x.inv(), x / y, x ** 5)
            return (f, [], {})
    _mk6(_fam)


# ------------------------------------------------------------------ equal arguments, different object histories (self-checking)
@op("INVARIANT:sgn0-of-results-independent-of-operand-memo", 0)
def _o():
    """the same expression on an element whose sgn0 was already read and on a freshly built equal
    element: results (incl. their sgn0) must be equal"""
    def f():
        out = []
        for fam in ("bn_opt", "bls_opt"):
            for kind, v in (("FQ2", [5, 7]), ("FQ2", [0, 3]), ("FQ12", list(range(1, 13)))):
                C = _F(fam, kind)
                used, fresh = C(list(v)), C(list(v))
                _ = used.sgn0
                for g in (lambda e: e * 2, lambda e: 3 * e, lambda e: -e, lambda e: e + e, lambda e: e * e, lambda e: e / 2):
                    a, b = g(used), g(fresh)
                    out.append(a == b and a.sgn0 == b.sgn0)
        return ("C20-INVARIANT", all(out))
    return (f, [], {})


# ------------------------------------------------------------------ verification calls that fail inside the library
for _s in SUITES:
    def _mk7(s):
        @op("AggregateVerify:identity-key-second:%s" % s, 2)
        def _a():
            C = getattr(I("py_ecc.bls"), SUITES[s])
            return (C.AggregateVerify, [[LIT["pk1"], b"\xc0" + b"\x00" * 47], [b"msg one", b"msg two"], LIT["agg:" + s]], {})

        @op("AggregateVerify:malformed-signature:%s" % s, 0)
        def _b():
            C = getattr(I("py_ecc.bls"), SUITES[s])
            return (C.AggregateVerify, [[LIT["pk1"]], [b"msg one"], b"\xff" * 96], {})
    _mk7(_s)


@op("pairing:off-curve-error:final_exponentiate=False:optimized_bn128", 0)
def _o():
    M = I("py_ecc.optimized_bn128")
    return (lambda Q, P: M.pairing(Q, P, final_exponentiate=False), [M.G2, (M.FQ(1), M.FQ(1), M.FQ(1))], {})


@op("pairing:off-curve-Q-error:optimized_bls12_381", 0)
def _o():
    M = I("py_ecc.optimized_bls12_381")
    return (M.pairing, [(M.FQ2([1, 1]), M.FQ2([2, 3]), M.FQ2.one()), M.G1], {})


# ------------------------------------------------------------------ keys that cancel, identity keys, forged triples
@op("FastAggregateVerify:cancelling-keys", 1)
def _o():
    return (I("py_ecc.bls").G2ProofOfPossession.FastAggregateVerify,
            [[LIT["pk1"], LIT["pk1neg"]], b"msg one", b"\xc0" + b"\x00" * 95], {})


@op("FastAggregateVerify:identity-key-second", 2)
def _o():
    return (I("py_ecc.bls").G2ProofOfPossession.FastAggregateVerify,
            [[LIT["pk2"], b"\xc0" + b"\x00" * 47], b"msg one", LIT["sig2same:pop"]], {})


@op("AggregateVerify:cancelling-keys:basic", 1)
def _o():
    return (I("py_ecc.bls").G2Basic.AggregateVerify,
            [[LIT["pk1"], LIT["pk1neg"]], [b"msg one", b"msg two"], b"\xc0" + b"\x00" * 95], {})


@op("subgroup_check:off-curve-triple-sharing-x-with-pk1", 1)
def _o():
    G = I("py_ecc.bls.g2_primitives")
    M = I("py_ecc.optimized_bls12_381")
    def f(pkb):
        x, y = M.normalize(G.pubkey_to_G1(pkb))
        out = []
        for t in ((x, y + 1, M.FQ(1)), (x, y - 1, M.FQ(1))):
            try:
                out.append(bool(G.subgroup_check(t)))
            except Exception as e:  # noqa: BLE001
                out.append(type(e).__name__)
        return out
    return (f, [LIT["pk1"]], {})


@op("subgroup_check:pk1-point-and-scaled", 1)
def _o():
    G = I("py_ecc.bls.g2_primitives")
    M = I("py_ecc.optimized_bls12_381")
    def f(pkb):
        P = G.pubkey_to_G1(pkb)
        return (G.subgroup_check(P), G.subgroup_check(tuple(c * 5 for c in P)))
    return (f, [LIT["pk1"]], {})


@op("hkdf_expand:bytes-arguments-raw-result", 0)
def _o():
    H = I("py_ecc.bls.hash")
    return (H.hkdf_expand, [bytes(range(32)), b"info", 48], {})


# ------------------------------------------------------------------ the caller's own containers and buffers between calls (self-checking)
@op("INVARIANT:FastAggregateVerify-sees-in-place-change-of-the-key-list", 3)
def _o():
    def f(pk1, pk2, sig):
        C = I("py_ecc.bls").G2ProofOfPossession
        L = [pk1, pk2]
        v1 = C.FastAggregateVerify(L, b"msg one", sig)
        L[1] = pk1
        v2 = C.FastAggregateVerify(L, b"msg one", sig)
        L[1] = pk2
        v3 = C.FastAggregateVerify(L, b"msg one", sig)
        return ("C20-INVARIANT", (v1, v2, v3) == (True, False, True))
    return (f, [LIT["pk1"], LIT["pk2"], LIT["aggsame:pop"]], {})


@op("INVARIANT:Aggregate-refuses-every-extension-of-a-refused-list", 1)
def _o():
    def f(s1, s2):
        C = I("py_ecc.bls").G2Basic
        bad = b"\x9a" + b"\x11" * 95
        outs = []
        for lst in ([s1, bad], [s1, bad, s2], [s1, bad], [s1, s2, bad, s1]):
            try:
                C.Aggregate(lst)
                outs.append("returned")
            except Exception:  # noqa: BLE001
                outs.append("raised")
        ok = C.Aggregate([s1, s2])
        return ("C20-INVARIANT", outs == ["raised"] * 4 and C.Aggregate([s1, s2, s1]) != ok and C.Aggregate([s1, s2]) == ok)
    return (f, [LIT["sig1:basic"], LIT["sig2:basic"]], {})


@op("INVARIANT:hash_to_G2-distinguishes-shifted-message-and-tag", 2)
def _o():
    def f():
        H = I("py_ecc.bls.hash_to_curve")
        M = I("py_ecc.optimized_bls12_381")
        T = b"BLS_SIG_BLS12381G2_XMD:SHA-256_SSWU_RO_NUL_"
        a = H.hash_to_G2(b"transfer:42;ctx=A", T, hashlib.sha256)
        b = H.hash_to_G2(b"transfer:42;", b"ctx=A" + T, hashlib.sha256)
        c = H.hash_to_G2(b"transfer:42;ctx=A", T, hashlib.sha256)
        return ("C20-INVARIANT", (not M.eq(a, b)) and M.eq(a, c))
    return (f, [], {})

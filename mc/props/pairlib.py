"""Shared helpers of the pairing checks (C05, C12): one `Setting` per pairing configuration -
the two shipped curves at full size and the tiny pairing-friendly curves served by the
configuration loader - giving the four modules (reference/optimized x curve/pairing), the model
fields / curves / generators, and converters."""
import importlib

from ..model import params
from .. import tinypair

FULL = ("bn128", "bls12_381")
TINY = ("BN-T", "BLS-T1-13", "BLS-T1-6037", "BLS-T2")
_cache = {}


class Setting:
    def __init__(self, name):
        self.name = name
        if name in FULL:
            d = params.curves()[name]
            self.p, self.r = d["p"], d["r"]
            self.F1, self.F2, self.F12 = d["F"]
            self.E1, self.E2 = d["E1"], d["E2"]
            self.G1, self.G2 = d["G1"], d["G2"]
            ref = importlib.import_module("py_ecc." + name)
            opt = importlib.import_module("py_ecc.optimized_" + name)
            self.rc = self.rp = ref
            self.oc = self.op = opt
            self.tiny = False
            self.family = name
        else:
            T = tinypair.get(name)
            self.p, self.r = T.p, T.r
            self.F1, self.F2, self.F12 = T.F1, T.F2, T.F12
            self.E1, self.E2 = T.E1, T.E2
            self.G1, self.G2 = T.G1, T.G2
            self.rc, self.rp, self.oc, self.op = T.ref_curve, T.ref_pair, T.opt_curve, T.opt_pair
            self.tiny = True
            self.family = T.fam
            self.b = T.c["b"]

    # module selectors -------------------------------------------------------
    def curve(self, fam):
        return self.rc if fam == "ref" else self.oc

    def pair(self, fam):
        return self.rp if fam == "ref" else self.op

    # model point -> library point ------------------------------------------
    def pt1(self, fam, P, lam=1):
        C = self.curve(fam)
        if fam == "ref":
            return None if P is None else (C.FQ(P[0]), C.FQ(P[1]))
        if P is None:
            raise ValueError("infinity: use inf1()")
        p = self.p
        return (C.FQ(P[0] * lam % p), C.FQ(P[1] * lam % p), C.FQ(lam % p))

    def pt2(self, fam, Q, lam=(1, 0), fq_coeffs=False):
        """fq_coeffs: Fp2 coordinates carry same-family FQ objects instead of ints"""
        C = self.curve(fam)
        mk = (lambda v: C.FQ2([C.FQ(c) for c in v])) if fq_coeffs else (lambda v: C.FQ2(list(v)))
        if fam == "ref":
            return None if Q is None else (mk(Q[0]), mk(Q[1]))
        if Q is None:
            raise ValueError("infinity: use inf2()")
        F2 = self.F2
        return (mk(F2.mul(Q[0], lam)), mk(F2.mul(Q[1], lam)), mk(lam))

    def inf1(self, fam):
        """representatives of infinity in G1 (library side)"""
        C = self.curve(fam)
        if fam == "ref":
            return [None]
        FQ = C.FQ
        out = [(FQ(1), FQ(1), FQ(0)), (FQ(0), FQ(1), FQ(0)), (FQ(5), FQ(7), FQ(0))]
        z = getattr(C, "Z1", None)
        if z is not None:
            out.append(z)
            out.append(C.double(C.double(z)))
        return out

    def inf2(self, fam):
        C = self.curve(fam)
        if fam == "ref":
            return [None]
        FQ2 = C.FQ2
        out = [(FQ2.one(), FQ2.one(), FQ2.zero()), (FQ2.zero(), FQ2.one(), FQ2.zero()),
               (FQ2([3, 4]), FQ2([0, 9]), FQ2.zero())]
        z = getattr(C, "Z2", None)
        if z is not None:
            out.append(z)
            out.append(C.double(C.double(z)))
        # infinity whose z is built from FQ objects (== zero, but its coefficients are objects)
        FQ = C.FQ
        out.append((FQ2.one(), FQ2.one(), FQ2([FQ(0), FQ(0)])))
        out.append((FQ2([FQ(2), FQ(3)]), FQ2([FQ(1), FQ(0)]), FQ2([FQ(0), FQ(0)])))
        return out

    def co(self, x):
        """canonical integer coefficients of a degree-12 library element"""
        cs = x.coeffs
        if len(cs) != 12:
            raise ValueError("not a degree-12 element")
        return tuple(int(c) % self.p for c in cs)

    def el12(self, fam, v):
        return self.curve(fam).FQ12(list(v))


def get(name):
    if name not in _cache:
        _cache[name] = Setting(name)
    return _cache[name]


def call(f, *a, **k):
    try:
        return ("ok", f(*a, **k))
    except Exception as e:  # noqa: BLE001 - outcomes of the code under test
        return ("raise", type(e).__name__)

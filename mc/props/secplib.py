"""Shared helpers of the secp256k1 checks (C06, C18, C19): the working tree's secp256k1 module
at full size and re-instantiated on tiny prime-order curves (configuration loader), with the
matching int model."""
import importlib

from .. import cfgload
from ..model import ecdsa

_cache = {}


def full():
    if "full" not in _cache:
        _cache["full"] = (importlib.import_module("py_ecc.secp256k1.secp256k1"), ecdsa.secp256k1())
    return _cache["full"]


def tiny(P, B, N):
    k = (P, B, N)
    if k not in _cache:
        m = ecdsa.tiny(P, B, N)
        S = cfgload.load_secp(P, B, N, m.G[0], m.G[1])
        assert (S.P, S.N, S.A, S.B, S.G) == (P, N, 0, B, m.G), "loader did not substitute"
        _cache[k] = (S, m)
    return _cache[k]


def get(cfg):
    """cfg: 'full' or [P, B, N]"""
    if cfg == "full":
        return full()
    return tiny(*cfg)


def to_lib(P):
    return (0, 0) if P is None else (P[0], P[1])


def to_model(Q):
    """library affine pair -> model point; (0, 0) is the identity encoding"""
    if not (isinstance(Q, tuple) and len(Q) == 2):
        return ("malformed", repr(Q)[:80])
    x, y = Q
    if type(x) is not int or type(y) is not int:
        return ("malformed", repr(Q)[:80])
    if x == 0 and y == 0:
        return None
    return (x, y)


def call(f, *a):
    try:
        return ("ok", f(*a))
    except Exception as e:  # noqa: BLE001 - outcomes of the code under test
        return ("raise", type(e).__name__)


def hx(n):
    return hex(n)


def unhx(s):
    return int(s, 16)

"""C02 - Verify accepts exactly the one canonical signature.

For (suite, key, message) over small alphabets, a candidate domain of 96-byte strings is built
by the MODEL around the honest signature S: S itself; signatures by other keys / on other
messages / under the other suites and tags (possession proof <-> message signature, augmented
signature without its key prefix); -S, 2S, S+G2, S+T for torsion points T, cofactor components,
the identity, seeded valid encodings inside and outside the subgroup; re-encodings (flag bits,
x+p, second-word flags, swapped words); single-bit flips (quick: one bit of every byte + flag
bits; thorough: all 768).  Oracle (analytic): Verify(pk, m, cand) is True  <=>  cand == model
signature for (suite, key, message); PopVerify likewise around PopProve.
"""
from ..core import R, rng
from ..model import bls as MB
from ..model import params
from . import blslib as BL

LEVEL = "exploration"
ME = "mc.props.C02"
R_ = MB.R
E2 = BL.E2


PKPREFIX = b"<PK>"  # placeholder: replaced by the signer's 48 public-key bytes


def messages():
    return [b"", b"\x00", bytes(range(64)), b"abc", PKPREFIX + b"abc", b"\x5a" * 70001]


def _resolve_msg(msg, sk):
    if msg.startswith(PKPREFIX):
        return MB.sk_to_pk(sk) + msg[len(PKPREFIX):]
    return msg


def keys(env):
    g = rng(env, "keys")
    return [1, R_ - 1, g.randrange(2, R_ - 1), g.randrange(2, R_ - 1)]


def candidates(env, target, suite, sk, msg, flips):
    """[(label, bytes)] - target: 'sig' (Verify) or 'pop' (PopVerify). Deterministic in env."""
    g = rng(env, "cand:%s:%s:%d" % (target, suite, sk % 1000))
    pk = MB.sk_to_pk(sk)
    msg = _resolve_msg(msg, sk)
    if target == "sig":
        hm = MB.hashed_message(suite, sk, msg)
        dst = MB.DST[suite]
    else:
        hm, dst = pk, MB.POP_TAG
    H = MB.hash_point(hm, dst)
    Sp = E2.mul(H, sk)
    S = MB.g2_bytes(Sp)
    out = [("honest", S)]
    # other key / other message
    for lbl, k2 in (("key+1", sk % (R_ - 1) + 1), ("key-1", (sk - 2) % (R_ - 1) + 1), ("other-key", g.randrange(1, R_))):
        if k2 != sk:
            out.append((lbl, MB.g2_bytes(E2.mul(H, k2))))
    if target == "sig":
        alts = [("msg+00", msg + b"\x00"), ("msg-bitflip", (bytes([msg[0] ^ 1]) + msg[1:]) if msg else b"\x01"),
                ("msg-truncated", msg[:-1] if msg else b"\x00\x00"), ("empty-vs-00", b"\x00" if msg == b"" else b"")]
        for lbl, m2 in alts:
            if m2 != msg:
                out.append((lbl, MB.sign(suite, sk, m2)))
        if msg.startswith(pk):
            out.append(("signature-of-message-without-key-prefix", MB.sign(suite, sk, msg[48:])))
        for s2 in BL.SUITES:
            if s2 != suite:
                out.append(("suite:" + s2, MB.sign(s2, sk, msg)))
        # same hashed string under each other tag; the possession-proof tag; no key prefix (aug)
        out.append(("tag:POP_TAG", MB.g2_bytes(MB.core_sign_point(sk, hm, MB.POP_TAG))))
        out.append(("possession-proof-as-signature", MB.pop_prove(sk)))
        if suite == "aug":
            out.append(("aug-without-key-prefix", MB.g2_bytes(MB.core_sign_point(sk, msg, MB.DST["aug"]))))
            out.append(("aug-prefix-after-message", MB.g2_bytes(MB.core_sign_point(sk, msg + pk, MB.DST["aug"]))))
        else:
            out.append(("with-key-prefix", MB.g2_bytes(MB.core_sign_point(sk, pk + msg, dst))))
    else:
        for s2 in BL.SUITES:
            out.append(("message-signature-of-pk:" + s2, MB.sign(s2, sk, pk)))
        out.append(("proof-of-other-key-bytes", MB.g2_bytes(MB.core_sign_point(sk, MB.sk_to_pk(sk % (R_ - 1) + 1), MB.POP_TAG))))
    # algebraic variants
    G2 = params.bls_g2()
    out.append(("-S", MB.g2_bytes(E2.neg(Sp))))
    out.append(("2S", MB.g2_bytes(E2.double(Sp))))
    out.append(("S+G2", MB.g2_bytes(E2.add(Sp, G2))))
    for lbl, T in BL.torsion_points("E2").items():
        out.append(("S+" + lbl, MB.g2_bytes(E2.add(Sp, T))))
        out.append((lbl, MB.g2_bytes(T)))
    out.append(("identity", MB.g2_bytes(None)))
    out.append(("G2", MB.g2_bytes(G2)))
    out.append(("H(m)", MB.g2_bytes(H)))
    for i in range(4):
        out.append(("seeded-subgroup-point", MB.g2_bytes(E2.mul(G2, g.randrange(1, R_)))))
    for lbl, b in BL.reencodings_g2(S):
        out.append(("reencoding:" + lbl, b))
    out.append(("zeros", b"\x00" * 96))
    out.append(("ones", b"\xff" * 96))
    out.append(("seeded-bytes", bytes(g.getrandbits(8) for _ in range(96))))
    if flips == "all":
        bits = list(range(768))
    elif flips == "none":
        bits = [767, 766, 765, 0]
    else:
        bits = sorted(set([8 * i + (i % 8) for i in range(96)] + [767, 766, 765, 383, 382, 381]))
    for b in bits:
        out.append(("bitflip:%d" % b, BL.flip_bit(S, b)))
    for _ in range(16 if flips != "all" else 64):
        b1, b2 = g.randrange(768), g.randrange(768)
        if b1 != b2:
            out.append(("double-bitflip", BL.flip_bit(BL.flip_bit(S, b1), b2)))
    return S, out


def cand_case(env, target, suite, sk, msg, flips, idx):
    """evaluate candidate #idx: (label, expected, observed)"""
    S, cands = candidates(env, target, suite, sk, msg, flips)
    msg = _resolve_msg(msg, sk)
    lbl, c = cands[idx]
    C = BL.suite_cls(suite)
    pk = MB.sk_to_pk(sk)
    exp = c == S
    if target == "sig":
        got = BL.verdict(C.Verify, pk, msg, c)
    else:
        got = BL.verdict(C.PopVerify, pk, c)
    return lbl, exp, got


def task_cands(a, env):
    target, suite, sk, msg = a["target"], a["suite"], int(a["sk"], 16), bytes.fromhex(a["msg"])
    r = R("%s:%s" % ("Verify" if target == "sig" else "PopVerify", suite))
    S, cands = candidates(env, target, suite, sk, msg, a["flips"])
    msg = _resolve_msg(msg, sk)
    C = BL.suite_cls(suite)
    pk = MB.sk_to_pk(sk)
    seen = set()
    after_honest = set()
    # call history before the verifications (ignored results): related inputs through other entry points
    if target == "sig":
        BL.prelude(suite, pk, MB.hashed_message(suite, sk, msg), MB.DST[suite], S)
    else:
        BL.prelude(suite, pk, pk, MB.POP_TAG, S)
    idxs = list(range(a["lo"], len(cands), a["step"]))
    # every slice is a history: the honest signature is verified first and again last, so that a
    # verdict that depends on what was decoded / verified before it shows up inside the task
    idxs = [0] + [i for i in idxs if i != 0] + [0]
    for idx in idxs:
        lbl, c = cands[idx]
        exp = c == S
        if target == "sig":
            got = BL.verdict(C.Verify, pk, msg, c)
        else:
            got = BL.verdict(C.PopVerify, pk, c)
        r.ev += 1
        if c not in seen:
            seen.add(c)
            r.dn += 1
        d_ = MB.decode_sig(c) if (got == exp and exp is False) else None
        if d_ is not None:
            # the same refused string presented again straight away: the verdict is a function of the
            # arguments, not of what was decoded last (strings that decode to a curve point cost a subgroup
            # check or a pairing each time: every third of those)
            if d_[0] != "ok" or idx % 3 == 0:
                got = BL.verdict(C.Verify, pk, msg, c) if target == "sig" else BL.verdict(C.PopVerify, pk, c)
                r.ev += 1
                if got != exp:
                    lbl = lbl + " (second presentation)"
            # classes: by candidate label and by how the model says the string fails (does not decode /
            # decodes to a point outside the subgroup / is another valid signature)
            cls_ = (lbl.split(":")[0], "undecodable" if d_[0] != "ok" else "decodable")
            if got == exp and cls_ not in after_honest and sum(1 for x in after_honest if x[1] == cls_[1]) < a.get("after_honest", 2):
                # one string per class: the honest signature is accepted, then the refused string twice
                after_honest.add(cls_)
                ver = (lambda x: BL.verdict(C.Verify, pk, msg, x)) if target == "sig" else (lambda x: BL.verdict(C.PopVerify, pk, x))
                h = ver(S)
                g1, g2 = ver(c), ver(c)
                r.ev += 3
                if h is not True:
                    got, exp, lbl = h, True, "the honest signature after " + lbl
                elif g1 is not False or g2 is not False:
                    got, lbl = (g1 if g1 is not False else g2), lbl + " (presented twice right after the honest signature was accepted)"
        if got != exp:
            cls = lbl.split(":")[0].split(" (")[0]
            kind = "rejects-honest" if exp else ("accepts-forgery" if got is True else "not-a-bool")
            r.viol("C02:%s:%s:%s:%s" % (target, suite, kind, cls), ME + ":replay",
                   {"target": target, "suite": suite, "sk": a["sk"], "msg": a["msg"], "flips": a["flips"],
                    "idx": idx, "seed": env["seed"]}, exp, got, note=lbl)
    if a.get("sample"):
        r.sample({"entry": "Verify" if target == "sig" else "PopVerify", "suite": suite, "sk": a["sk"][:20],
                  "msg": a["msg"][:16], "candidates": len(cands), "labels": [l for l, _ in cands[:12]]})
    return r


# ------------------------------------------------------------------ suites with a caller-chosen tag
TAGS = [b"", b"T", b"a" * 255]


def _takes(f, n):
    """the (private) core call still takes n positional arguments, the last one being the tag"""
    import inspect
    try:
        ps = [q for q in inspect.signature(f).parameters.values() if q.kind in (q.POSITIONAL_ONLY, q.POSITIONAL_OR_KEYWORD)]
    except (TypeError, ValueError):
        return False
    return len(ps) == n and ps[-1].name.upper() == "DST"


def tag_case(suite, ti, sk, which):
    """a subclass of the stock suite whose domain tag (which="DST") or possession-proof tag
    (which="POP_TAG") is TAGS[ti]: its signatures are the model's for that tag and for no other"""
    tag = TAGS[ti]
    base = BL.suite_cls(suite)
    # history: the stock suite is used first, the derived one afterwards
    BL.call(base.Sign, 3, b"warm")
    BL.verdict(base.Verify, MB.sk_to_pk(3), b"warm", MB.sign(suite, 3, b"warm"))
    C = type("Custom", (base,), {which: tag})
    msg = b"abc"
    pk = MB.sk_to_pk(sk)
    out = []
    if which == "DST":
        hm = MB.hashed_message(suite, sk, msg)
        want = MB.g2_bytes(MB.core_sign_point(sk, hm, tag))
        stock = MB.sign(suite, sk, msg)
        got = BL.call(C.Sign, sk, msg)
        out.append(("Sign under the custom tag", ("ok", want), got))
        out.append(("Verify(own-tag signature)", True, BL.verdict(C.Verify, pk, msg, want)))
        out.append(("Verify(stock-tag signature) by the custom suite", False, BL.verdict(C.Verify, pk, msg, stock)))
        out.append(("Verify(custom-tag signature) by the stock suite", False, BL.verdict(base.Verify, pk, msg, want)))
        core_s, core_v = getattr(base, "_CoreSign", None), getattr(base, "_CoreVerify", None)
        if core_s is not None and core_v is not None and _takes(core_s, 3) and _takes(core_v, 4):
            # the tag passed explicitly to the core calls of the stock suite
            out.append(("_CoreSign(tag)", ("ok", want), BL.call(core_s, sk, hm, tag)))
            out.append(("_CoreVerify(own tag)", True, BL.verdict(core_v, pk, hm, want, tag)))
            out.append(("_CoreVerify(stock signature, custom tag)", False, BL.verdict(core_v, pk, hm, stock, tag)))
    else:
        want = MB.g2_bytes(MB.core_sign_point(sk, pk, tag))
        stock = MB.pop_prove(sk)
        out.append(("PopProve under the custom tag", ("ok", want), BL.call(C.PopProve, sk)))
        out.append(("PopVerify(own-tag proof)", True, BL.verdict(C.PopVerify, pk, want)))
        out.append(("PopVerify(stock proof) by the custom suite", False, BL.verdict(C.PopVerify, pk, stock)))
        out.append(("PopVerify(custom-tag proof) by the stock suite", False, BL.verdict(base.PopVerify, pk, want)))
        out.append(("Verify(message = own pk, custom-tag proof)", False, BL.verdict(C.Verify, pk, pk, want)))
        out.append(("PopVerify(message signature over own pk)", False, BL.verdict(C.PopVerify, pk, MB.sign("pop", sk, pk))))
    return out


def task_tags(a, env):
    r = R("caller-chosen-tags")
    for which, suite in a["cases"]:
        for ti in range(len(TAGS)):
            for step, exp, got in tag_case(suite, ti, a["sk"], which):
                r.ev += 1
                r.dk.add((which, suite, ti, step))
                if exp != got:
                    r.viol("C02:tags:%s:%s:%s" % (suite, which, "empty-tag" if not TAGS[ti] else "nonempty-tag"), ME + ":replay_tags",
                           {"suite": suite, "ti": ti, "sk": a["sk"], "which": which}, exp, got, note=step)
                    break
    r.sample({"subclass": "type('Custom', (G2Basic,), {'DST': b''})"})
    return r


def replay_tags(a):
    for step, exp, got in tag_case(a["suite"], a["ti"], a["sk"], a["which"]):
        if exp != got:
            return {"step": step, "expected": exp, "observed": got}
    return None


def replay(a):
    env = {"seed": a["seed"], "pid": "C02", "tier": "quick"}
    lbl, exp, got = cand_case(env, a["target"], a["suite"], int(a["sk"], 16), bytes.fromhex(a["msg"]),
                              a["flips"], a["idx"])
    return None if exp == got else {"candidate": lbl, "expected": exp, "observed": got}


def run(ctx):
    ctx.rule = ("one case per (entry point, suite, key, message, candidate string); distinct = distinct "
                "candidate byte strings per task; expected verdict = byte equality with the model signature")
    ctx.assumptions = ["the independent model signer (anchored to published vectors) and the library do not "
                       "share a defect; the library's own Sign output is compared with the model in C09",
                       "BLS signatures are unique: every string other than the model signature must be rejected"]
    ks = keys(ctx.env)
    ms = messages()
    q = ctx.quick
    combos = []
    for suite in BL.SUITES:
        kk = ks[:2] if q else ks[:3]
        mm = [ms[0], ms[3]] if q else ms[:3]
        for i, sk in enumerate(kk):
            for j, m in enumerate(mm):
                combos.append(("sig", suite, sk, m, ("byte" if i == j else "none") if q else "all"))
        combos.append(("sig", suite, kk[-1], ms[4], "none"))
        if suite != "pop" or not q:
            combos.append(("sig", suite, kk[0], ms[5], "none"))
    # keys / signatures whose encodings carry a coordinate with the leading byte of p
    for lbl, k in BL.leading_byte_keys().items():
        suite = "pop" if ("pop" in lbl or lbl.startswith("pk")) else "basic"
        combos.append(("sig", suite, k, ms[3], "none"))
        if lbl.startswith("pk"):
            combos.append(("pop", "pop", k, b"", "none"))
    combos.append(("pop", "pop", ks[2], b"", "byte" if q else "all"))
    if not q:
        combos += [("pop", "pop", ks[0], b"", "all"), ("pop", "pop", ks[1], b"", "all")]
    ctx.bounds = {"keys": [hex(k)[:18] for k in ks[:3]], "messages": [m.hex()[:16] for m in ms],
                  "combinations": len(combos), "bit_flips": "one bit of each byte + flag bits + 16 double flips" if q
                  else "all 768 single flips + 64 double flips"}
    tasks = []
    step = 3 if q else 10
    for i, (target, suite, sk, m, flips) in enumerate(combos):
        for lo in range(step):
            tasks.append(("cands", {"target": target, "suite": suite, "sk": hex(sk), "msg": m.hex(),
                                    "flips": flips, "lo": lo, "step": step, "sample": lo == 0 and i % 4 == 0}))
    for case in (("DST", "basic"), ("DST", "aug"), ("DST", "pop"), ("POP_TAG", "pop")):
        tasks.append(("tags", {"cases": [case], "sk": 5}))
    ctx.pmap(ME, tasks)

"""C17 - subgroup membership test is exact; cofactor clearing lands in the subgroup.

I1: subgroup_check's real body, with the one module constant it reads (`curve_order`, in the
function's own globals) rebound to a small prime r' inside the worker task (restored in
`finally`), is run on EVERY point, in EVERY projective representative, of every curve
y^2 = x^3 + b over GF(p), p <= 31, and over GF(p^2), p in {5, 7}, whose group order is
h * r' with h > 1.  Oracle: model order of the point divides r'.
I2: at full size, torsion points of EVERY prime order dividing the derived cofactors h1, h2,
full-cofactor components, sums with subgroup points, in several scalings; cofactor clearing
against the model's h_eff * P; published cofactor constants against values derived from x.
"""
import importlib

from ..core import R, rng
from .. import lib
from ..model import ec, params, zp
from . import C07_full

LEVEL = "model_checking"
ME = "mc.props.C17"


def _g2p():
    return importlib.import_module("py_ecc.bls.g2_primitives")


def _small_prime_factors(n, bound):
    out = []
    d = 2
    while d <= bound and d * d <= n:
        while n % d == 0:
            out.append(d)
            n //= d
        d += 1 if d == 2 else 2
    if n > 1:
        out.append(n)
    return out


def _verdict(f, P):
    try:
        v = f(P)
    except Exception as e:  # noqa: BLE001
        return "raise " + type(e).__name__
    if v is True or v is False:
        return v
    return "non-bool " + repr(v)[:40]


# ------------------------------------------------------------------ tiny curves
def tiny_curves(quick):
    """[(p, mc|None, b, order, [r' ...])] - every curve with composite order having a prime
    factor r' >= 3 with cofactor > 1."""
    out = []
    for p in [5, 7, 11, 13, 17, 19, 23, 29, 31]:
        F = zp.Fp(p)
        for b in range(1, p):
            n = len(ec.Curve(F, 0, b).points()) + 1
            fs = sorted(set(_small_prime_factors(n, n)))
            rs = [q for q in fs if q >= 3 and q < n]
            if rs:
                out.append((p, None, b, n, rs))
    for p in [5, 7]:
        mc = (1, 0) if p % 4 == 3 else (2, 0) if p == 5 else None
        F = zp.Fpk(p, mc)
        bs = [(b0, b1) for b0 in range(p) for b1 in range(p) if (b0, b1) != (0, 0)]
        if quick:
            bs = bs[::4]
        for b in bs:
            n = len(ec.Curve(F, 0, b).points()) + 1
            fs = sorted(set(_small_prime_factors(n, n)))
            rs = [q for q in fs if q >= 3 and q < n]
            if rs:
                out.append((p, mc, b, n, rs[-2:]))
    return out


def task_tiny(a, env):
    r = R("tiny:subgroup_check-all-points")
    g2p = _g2p()
    f = g2p.subgroup_check
    glob = getattr(f, "__globals__", {})
    if "curve_order" not in glob:
        r.skipped.append("subgroup_check does not read a global curve_order: tiny configurations skipped")
        r.ev += 1
        return r
    saved = glob["curve_order"]
    real_r = params.BLS_R
    mism_tiny = mism_real = 0
    viols = []
    try:
        for (p, mc, b, n, rs) in a["curves"]:
            mc = tuple(mc) if mc is not None else None
            b = tuple(b) if mc is not None else b
            cfg = lib.Cfg("opt", p, mc)
            F = cfg.F
            E = ec.Curve(F, 0, b)
            pts = E.points()
            assert len(pts) + 1 == n
            if mc is None:
                lams = [l for l in F.elems() if not F.is_zero(l)]
            else:
                lams = [F.one, F.el(2), (0, 1), (1, 1), (p - 1, 3)]
            infs = [(F.one, F.one, F.zero), (F.zero, F.one, F.zero), (F.el(3), F.el(2), F.zero),
                    (F.zero, F.zero, F.zero)]
            for rp in rs:
                glob["curve_order"] = rp
                r.states += n
                for P in [None] + pts:
                    in_sub = E.mul(P, rp) is None
                    in_real = E.mul(P, real_r) is None
                    if P is None:
                        reps = [tuple(cfg.lib(c) for c in t) for t in infs]
                    else:
                        reps = [lib.opt_pt(cfg, P, l) for l in lams]
                    for i, rep in enumerate(reps):
                        v = _verdict(f, rep)
                        r.ev += 1
                        r.transitions += 1
                        if v != in_sub:
                            mism_tiny += 1
                            viols.append(("C17:tiny:%s" % ("accepts-non-member" if v is True else
                                                           "rejects-member" if v is False else "not-a-bool"),
                                          {"p": p, "mc": mc, "b": b, "r": rp, "P": P, "rep": i}, in_sub, v))
                        if v != in_real:
                            mism_real += 1
                    r.dn += len(reps)
    finally:
        glob["curve_order"] = saved
    if mism_tiny and not mism_real:
        # the function ignored the rebinding (answers are exactly those for the real r): it no
        # longer reads the rebound global - a refactor, not a verdict; tiny half skipped
        r.skipped.append("subgroup_check ignores its module-level curve_order: tiny configurations skipped")
        return r
    for key, args, exp, got in viols:
        r.viol(key, ME + ":replay_tiny", args, exp, got)
    if a.get("sample"):
        c = a["curves"][0]
        r.sample({"curve": "y^2=x^3+%s over GF(%d%s)" % (c[2], c[0], "^2" if c[1] else ""), "order": c[3],
                  "r_prime": c[4], "representatives": "every scaling in GF(p)*"})
    return r


def replay_tiny(a):
    g2p = _g2p()
    f = g2p.subgroup_check
    glob = f.__globals__
    saved = glob["curve_order"]
    mc = tuple(a["mc"]) if a["mc"] is not None else None
    cfg = lib.Cfg("opt", a["p"], mc)
    F = cfg.F
    b = tuple(a["b"]) if mc is not None else a["b"]
    E = ec.Curve(F, 0, b)
    P = a["P"]
    if P is not None:
        P = tuple(tuple(c) if isinstance(c, list) else c for c in P)
    if mc is None:
        lams = [l for l in F.elems() if not F.is_zero(l)]
    else:
        lams = [F.one, F.el(2), (0, 1), (1, 1), (a["p"] - 1, 3)]
    infs = [(F.one, F.one, F.zero), (F.zero, F.one, F.zero), (F.el(3), F.el(2), F.zero),
            (F.zero, F.zero, F.zero)]
    rep = tuple(cfg.lib(c) for c in infs[a["rep"]]) if P is None else lib.opt_pt(cfg, P, lams[a["rep"]])
    try:
        glob["curve_order"] = a["r"]
        v = _verdict(f, rep)
    finally:
        glob["curve_order"] = saved
    exp = E.mul(P, a["r"]) is None
    return None if v == exp else {"expected": exp, "observed": v}


# ------------------------------------------------------------------ full size
def _torsion_domain(group, env, thorough):
    """[(label, model point)] on E(Fp) / E'(Fp2) of BLS12-381, built by the model only."""
    d = params.curves()["bls12_381"]
    E = d[group]
    r_ = d["r"]
    h = params.BLS_H1 if group == "E1" else params.BLS_H2
    n = h * r_
    G = d["G1"] if group == "E1" else d["G2"]
    g = rng(env, "tors:" + group)
    primes = sorted(set(q for q in _small_prime_factors(h, 2 * 10**6) if q < 10**9))
    if group == "E1":
        primes = sorted(set(_small_prime_factors(abs(params.BLS_X - 1), 10**6)))

    def rand_point(i):
        x = 3 + 7 * i
        while True:
            cand = E.lift_x(x if group == "E1" else (x, i + 1))
            if cand:
                return cand[0]
            x += 1

    dom = [("O", None), ("G", G), ("2G", E.mul(G, 2)), ("(r-1)G", E.mul(G, r_ - 1))]
    k = g.randrange(2, r_)
    kG = E.mul(G, k)
    dom.append(("kG", kG))
    tors = []
    for ell in primes:
        e = 0
        m = n
        while m % ell == 0:
            m //= ell
            e += 1
        i = 0
        while True:
            T = E.mul(rand_point(i), m)
            i += 1
            if T is not None:
                break
        while E.mul(T, ell) is not None:
            T = E.mul(T, ell)
        tors.append((ell, T))
        dom.append(("T_%d" % ell, T))
    for ell, T in (tors if thorough else tors[:2] + tors[-1:]):
        dom.append(("kG+T_%d" % ell, E.add(kG, T)))
    R0 = rand_point(50)
    C = E.mul(R0, r_)  # full-cofactor component
    dom.append(("r*R (cofactor component)", C))
    dom.append(("G+r*R", E.add(G, C)))
    for i in range(2 if not thorough else 6):
        dom.append(("curve point from x #%d" % i, rand_point(60 + i)))
    dom.append(("h*R (subgroup component)", E.mul(R0, h)))
    if thorough and len(tors) >= 2:
        dom.append(("T_a+T_b", E.add(tors[0][1], tors[1][1])))
    return dom, primes


def _m61(cfg):
    """a scaling whose coefficients are multiples of 2^61 - 1 (CPython's int-hash modulus)"""
    m = (1 << 61) - 1
    return m if cfg.mc is None else (m, 2 * m)


def _full_case(group, P, lam, which):
    d = params.curves()["bls12_381"]
    E = d[group]
    cfg = C07_full.field_cfg("bls12_381", group, "opt")
    opt = importlib.import_module("py_ecc.optimized_bls12_381")
    F = cfg.F
    fqc = False
    if isinstance(lam, tuple) and len(lam) == 2 and lam[0] == "fq":
        fqc, lam = True, lam[1]
    if P is None:
        mk = cfg.lib_fq if fqc else cfg.lib
        reps = [tuple(mk(c) for c in t) for t in
                ((F.one, F.one, F.zero), (F.zero, F.one, F.zero), (F.el(2), F.el(5), F.zero))]
        rep = reps[lam if isinstance(lam, int) and lam < 3 else 0]
    else:
        rep = lib.opt_pt(cfg, P, lam, fqc)
    if which == "subgroup_check":
        exp = E.mul(P, d["r"]) is None
        return exp, _verdict(_g2p().subgroup_check, rep)
    heff = params.BLS_HEFF_G1 if group == "E1" else params.BLS_HEFF_G2
    f = opt.multiply_clear_cofactor_G1 if group == "E1" else opt.multiply_clear_cofactor_G2
    exp = E.mul(P, heff)
    assert E.mul(exp, d["r"]) is None  # model: h_eff * P is in the subgroup
    try:
        got = lib.opt_norm(cfg, f(rep))
    except Exception as e:  # noqa: BLE001
        got = "raise " + type(e).__name__
    return exp, got


def _failing_calls():
    """history (results and exceptions ignored): calls that fail or are refused inside the library - mixed
    coordinate classes, an off-curve triple that shares x with a subgroup point, wrong arity"""
    O = importlib.import_module("py_ecc.optimized_bls12_381")
    G = _g2p()
    H = importlib.import_module("py_ecc.bls.hash_to_curve")
    x2, y2, z2 = O.G2
    x1, y1, z1 = O.G1
    bad = [lambda: G.subgroup_check((x2, y2, O.FQ12.one())), lambda: O.multiply((x2, y2, O.FQ12.one()), 3),
           lambda: O.add(O.G1, O.G2), lambda: O.add(O.G2, (x2, y2, O.FQ12([1] * 12))),
           lambda: G.subgroup_check((x1, y1 + 1, z1)), lambda: G.subgroup_check((x2, y2 + O.FQ2.one(), z2)),
           lambda: G.subgroup_check((x1, y1)), lambda: H.clear_cofactor_G2((x2, y2, O.FQ12.one())),
           lambda: H.clear_cofactor_G2((x1, y1, z1)), lambda: H.clear_cofactor_G1((x2, y2, z2)),
           lambda: x2 * O.FQ12.one(), lambda: O.FQ12.one() * x2, lambda: G.subgroup_check(None)]
    for f in bad:
        try:
            f()
        except Exception:  # noqa: BLE001
            pass


# ------------------------------------------------------------------ triples that share coordinates with the generator
def shared_triples(group):
    """[(label, model affine point, (x, y, z) model coordinates)]: curve points whose projective triple shares X
    and Y with the generator but has another Z (z solves b z^2 + b z - Gx^3 = 0), the images of the
    generator under x -> omega x (same Y), and their negatives"""
    d = params.curves()["bls12_381"]
    E, F = d[group], d[group].F
    G = d["G1"] if group == "E1" else d["G2"]
    b = F.el(params.BLS_B) if group == "E1" else F.el(params.bls_b2())
    gx3 = F.mul(F.mul(G[0], G[0]), G[0])
    out = []
    disc = F.sqrt(F.add(F.mul(b, b), F.mul(F.smul(b, 4), gx3)))
    if disc is not None:
        for sg in (disc, F.neg(disc)):
            z = F.div(F.add(F.neg(b), sg), F.smul(b, 2))
            if F.is_zero(z) or z == F.one:
                continue
            Pa = (F.div(G[0], z), F.div(G[1], z))
            assert E.on_curve(Pa)
            out.append(("(Gx, Gy, z) with z != 1", Pa, (G[0], G[1], z)))
            out.append(("(Gx, -Gy, z) with z != 1", E.neg(Pa), (G[0], F.neg(G[1]), z)))
    # cube roots of unity in the base field: (omega * Gx, Gy) is on the curve as well
    p = params.BLS_P
    for base in range(2, 40):
        w = pow(base, (p - 1) // 3, p)
        if w != 1:
            break
    for wk in (w, w * w % p):
        x = F.smul(G[0], wk) if group == "E2" else G[0] * wk % p
        Pa = (x, G[1])
        assert E.on_curve(Pa)
        out.append(("(omega^k * Gx, Gy, 1)", Pa, (x, G[1], F.one)))
        two = F.el(2)
        out.append(("(2 omega^k Gx, 2 Gy, 2)", Pa, (F.mul(x, two), F.mul(G[1], two), two)))
    return out


def shared_case(group, i):
    d = params.curves()["bls12_381"]
    E = d[group]
    cfg = C07_full.field_cfg("bls12_381", group, "opt")
    opt = importlib.import_module("py_ecc.optimized_bls12_381")
    lbl, Pa, t = shared_triples(group)[i]
    rep = tuple(cfg.lib(c) for c in t)
    out = [(lbl + ": subgroup_check", E.mul(Pa, d["r"]) is None, _verdict(_g2p().subgroup_check, rep))]
    heff = params.BLS_HEFF_G1 if group == "E1" else params.BLS_HEFF_G2
    f = opt.multiply_clear_cofactor_G1 if group == "E1" else opt.multiply_clear_cofactor_G2
    for what, g_, want in ((": clear_cofactor", lambda: f(rep), E.mul(Pa, heff)), (": multiply by 5", lambda: opt.multiply(rep, 5), E.mul(Pa, 5)),
                           (": multiply by r", lambda: opt.multiply(rep, d["r"]), E.mul(Pa, d["r"])),
                           (": add to the generator", lambda: opt.add(rep, opt.G1 if group == "E1" else opt.G2), E.add(Pa, d["G1"] if group == "E1" else d["G2"])),
                           (": double", lambda: opt.double(rep), E.add(Pa, Pa))):
        try:
            got = lib.opt_norm(cfg, g_())
        except Exception as e:  # noqa: BLE001
            got = "raise " + type(e).__name__
        out.append((lbl + what, want, got))
    try:
        eqg = opt.eq(rep, opt.G1 if group == "E1" else opt.G2)
    except Exception as e:  # noqa: BLE001
        eqg = "raise " + type(e).__name__
    out.append((lbl + ": eq(generator)", False, eqg))
    return out


def task_shared(a, env):
    r = R("triples-sharing-coordinates-with-the-generator")
    for group in ("E1", "E2"):
        for i in range(len(shared_triples(group))):
            for lbl, exp, got in shared_case(group, i):
                r.ev += 1
                r.transitions += 1
                r.dk.add((group, lbl))
                if exp != got:
                    r.viol("C17:full:%s:coordinate-sharing:%s" % (group, lbl.split(": ")[1].split(" ")[0]), ME + ":replay_shared",
                           {"group": group, "i": i}, exp, got, note=lbl)
    r.states = 1
    r.sample({"triples": [l for l, _p, _t in shared_triples("E1")]})
    return r


def replay_shared(a):
    for lbl, exp, got in shared_case(a["group"], a["i"]):
        if exp != got:
            return {"case": lbl, "expected": exp, "observed": got}
    return None


# ------------------------------------------------------------------ calls made from a deep caller stack
def _at_depth(n, f):
    return f() if n <= 0 else _at_depth(n - 1, f)


def deep_case(which, depth):
    """the function called with `depth` caller frames already on the stack: the model's answer or
    RecursionError - never another answer"""
    d = params.curves()["bls12_381"]
    opt = importlib.import_module("py_ecc.optimized_bls12_381")
    group = "E1" if which.endswith("G1") else "E2"
    E = d[group]
    cfg = C07_full.field_cfg("bls12_381", group, "opt")
    Pm = E.mul(d["G1"] if group == "E1" else d["G2"], 7)
    rep = lib.opt_pt(cfg, Pm, None)
    if which.startswith("subgroup_check"):
        want = True
        f = lambda: bool(_g2p().subgroup_check(rep)) if _g2p().subgroup_check(rep) in (True, False) else "non-bool"  # noqa: E731
    else:
        heff = params.BLS_HEFF_G1 if group == "E1" else params.BLS_HEFF_G2
        g_ = opt.multiply_clear_cofactor_G1 if group == "E1" else opt.multiply_clear_cofactor_G2
        want = E.mul(Pm, heff)
        f = lambda: lib.opt_norm(cfg, g_(rep))  # noqa: E731
    import sys
    old = sys.getrecursionlimit()
    try:
        # the interpreter's default limit, whatever the harness runs with
        sys.setrecursionlimit(max(1000, len(__import__("inspect").stack(0)) + 60))
        got = _at_depth(depth, f)
    except RecursionError:
        return None
    except Exception as e:  # noqa: BLE001
        got = "raise " + type(e).__name__
    finally:
        sys.setrecursionlimit(old)
    return None if got == want else (want, got)


def task_deep(a, env):
    r = R("calls-from-a-deep-caller-stack")
    lim = 1000  # the interpreter's default recursion limit
    for which in ("subgroup_check_G1", "subgroup_check_G2", "clear_cofactor_G1", "clear_cofactor_G2"):
        for depth in range(40, lim - 10, a["step"]):
            bad = deep_case(which, depth)
            r.ev += 1
            r.dk.add((which, depth))
            if bad:
                r.viol("C17:full:%s:deep-stack" % which, ME + ":replay_deep", {"which": which, "depth": depth}, bad[0], bad[1],
                       note="%d caller frames" % depth)
                break
    r.transitions = r.ev
    r.sample({"depths": "40, %d, ... up to the interpreter's recursion limit (%d)" % (40 + a["step"], lim),
              "accepted": "the model's answer or RecursionError"})
    return r


def replay_deep(a):
    bad = deep_case(a["which"], a["depth"])
    return None if not bad else {"expected": bad[0], "observed": bad[1]}


def task_full(a, env):
    group = a["group"]
    r = R("full:%s:torsion-alphabet" % group)
    _failing_calls()
    thorough = env["tier"] == "thorough"
    dom, primes = _torsion_domain(group, env, thorough)
    cfg = C07_full.field_cfg("bls12_381", group, "opt")
    lams = C07_full.scalings(cfg, env, "C17" + group)
    if not thorough:
        lams = lams[:1] + lams[-1:]
    lams = lams + [_m61(cfg)]
    r.notes["cofactor_primes_found"] = {str(q): 1 for q in primes}
    d = params.curves()["bls12_381"]
    sel = dom[a["lo"]::a["step"]]
    # G2: every representative additionally with FQ-object coefficients (same values)
    fqvariants = (group == "E2")
    for (label, P) in sel:
        base = list(lams if P is not None else [0, 1, 2])
        allreps = base + ([("fq", x) for x in base[:2]] if fqvariants else [])
        for li, lam in enumerate(allreps):
            for which in ("subgroup_check", "clear_cofactor"):
                if li < 2:
                    _failing_calls()
                exp, got = _full_case(group, P, lam, which)
                r.ev += 1
                r.transitions += 1
                r.dk.add((label, li, which))
                if exp != got:
                    member = d[group].mul(P, d["r"]) is None
                    r.viol("C17:full:%s:%s:%s" % (group, which, "member" if member else "non-member"),
                           ME + ":replay_full",
                           {"group": group, "label": label, "idx": dom.index((label, P)), "li": li,
                            "which": which, "seed": env["seed"], "tier": env["tier"]}, exp, got)
        r.states += 1
    if a["lo"] == 0:
        r.sample({"group": group, "labels": [l for l, _ in dom][:12], "scalings": len(lams)})
    return r


def replay_full(a):
    _failing_calls()
    env = {"seed": a["seed"], "pid": "C17", "tier": a["tier"]}
    thorough = a["tier"] == "thorough"
    dom, _ = _torsion_domain(a["group"], env, thorough)
    cfg = C07_full.field_cfg("bls12_381", a["group"], "opt")
    lams = C07_full.scalings(cfg, env, "C17" + a["group"])
    if not thorough:
        lams = lams[:1] + lams[-1:]
    lams = lams + [_m61(cfg)]
    label, P = dom[a["idx"]]
    base = list(lams if P is not None else [0, 1, 2])
    allreps = base + ([("fq", x) for x in base[:2]] if a["group"] == "E2" else [])
    lam = allreps[a["li"]]
    exp, got = _full_case(a["group"], P, lam, a["which"])
    return None if exp == got else {"label": label, "expected": exp, "observed": got}


def task_consts(a, env):
    r = R("full:cofactor-constants")
    opt = importlib.import_module("py_ecc.optimized_bls12_381")
    C = importlib.import_module("py_ecc.bls.constants")
    OC = importlib.import_module("py_ecc.optimized_bls12_381.constants")
    want = {"H_EFF_G1": params.BLS_HEFF_G1, "H_EFF_G2": params.BLS_HEFF_G2, "G2_COFACTOR": params.BLS_H2,
            "curve_order": params.BLS_R}
    got = {"H_EFF_G1": getattr(OC, "H_EFF_G1", None), "H_EFF_G2": getattr(OC, "H_EFF_G2", None),
           "G2_COFACTOR": getattr(C, "G2_COFACTOR", None), "curve_order": getattr(opt, "curve_order", None)}
    for k in want:
        r.ev += 1
        r.dk.add(k)
        if got[k] is None:
            r.skipped.append(k)
        elif got[k] != want[k]:
            r.viol("C17:full:constant:%s" % k, ME + ":replay_const", {"name": k}, hex(want[k]), hex(got[k]))
    # the derived values themselves: h2 * r == #E'(Fp2) is validated in params.selfcheck via G2 order;
    # here: h_eff relations of RFC 9380 8.8
    assert params.BLS_HEFF_G2 % params.BLS_H2 == 0 and params.BLS_HEFF_G1 == 1 - params.BLS_X
    r.sample({"constants": sorted(want)})
    r.states = 1
    r.transitions = len(want)
    return r


def replay_const(a):
    C = importlib.import_module("py_ecc.bls.constants")
    OC = importlib.import_module("py_ecc.optimized_bls12_381.constants")
    opt = importlib.import_module("py_ecc.optimized_bls12_381")
    k = a["name"]
    want = {"H_EFF_G1": params.BLS_HEFF_G1, "H_EFF_G2": params.BLS_HEFF_G2, "G2_COFACTOR": params.BLS_H2,
            "curve_order": params.BLS_R}[k]
    got = getattr(OC, k, None) if k.startswith("H_EFF") else getattr(C, k, None) if k == "G2_COFACTOR" \
        else getattr(opt, k, None)
    return None if got == want else {"expected": hex(want), "observed": hex(got) if got is not None else None}


def run(ctx):
    ctx.rule = (
        "tiny: one case per (curve, r', point, projective representative) - all of them; full "
        "size: one case per (labelled point, scaling, function); states = points visited"
    )
    ctx.assumptions = [
        "subgroup_check reads the module-level constant curve_order (rebound to r' for the tiny "
        "configurations and restored); if it does not, the tiny half is skipped, not failed",
        "cofactor primes are found by trial division of the derived h1, h2 up to 2*10^6",
    ]
    curves = tiny_curves(ctx.quick)
    ctx.bounds = {"tiny_curves": len(curves), "tiny_primes_p": [5, 7, 11, 13, 17, 19, 23, 29, 31],
                  "tiny_quadratic_fields": [5, 7], "full_scalings": 2 if ctx.quick else 4}
    tasks = []
    nt = 14
    for i in range(nt):
        ch = [list(c) for c in curves[i::nt]]
        if ch:
            tasks.append(("tiny", {"curves": ch, "sample": i == 0}))
    for group, step in (("E2", 10), ("E1", 5)):
        for lo in range(step):
            tasks.append(("full", {"group": group, "lo": lo, "step": step}))
    tasks.append(("consts", {}))
    tasks.append(("shared", {}))
    tasks.append(("deep", {"step": 60 if ctx.quick else 15}))
    tasks.sort(key=lambda t: 0 if t[0] == "full" else 1)
    ctx.pmap(ME, tasks)

"""C18 - secp256k1 point arithmetic equals the textbook group law for all points / scalars.

I1: the working tree's secp256k1 module re-instantiated (configuration loader; function bodies
untouched) on 11 tiny prime-order curves: add on ALL ordered pairs incl. the identity (0,0),
multiply on ALL points x ALL n in [-2N-1, 3N+1] (+ huge |n|); a state graph whose states are
the group elements and whose transitions are the library's own add / multiply results.
I2: full-size alphabets (complete products), privtopub, constants vs SEC 2.
"""
from ..core import R, rng
from ..model import ecdsa, params
from . import secplib as L

LEVEL = "model_checking"
ME = "mc.props.C18"


def _pt(P):
    return None if P is None else [hex(P[0]), hex(P[1])]


def _unpt(a):
    return None if a is None else (int(a[0], 16), int(a[1], 16))


def _chk_add(S, m, A, B):
    exp = m.add(A, B)
    o = L.call(S.add, L.to_lib(A), L.to_lib(B))
    got = L.to_model(o[1]) if o[0] == "ok" else o
    return exp, got


def _chk_mul(S, m, A, n):
    exp = m.mul(A, n % m.n)
    o = L.call(S.multiply, L.to_lib(A), n)
    got = L.to_model(o[1]) if o[0] == "ok" else o
    return exp, got


def _path(m, A, B):
    if A is None or B is None:
        return "identity-operand"
    if A == B:
        return "doubling"
    if A[0] == B[0]:
        return "inverse-points"
    return "generic"


def task_tiny(a, env):
    cfg = a["cfg"]
    S, m = L.get(cfg)
    r = R("tiny:add+multiply")
    pts = [None] + m.points()
    r.states = len(pts)
    # model self-validation on this curve: group order and cyclicity
    assert len(pts) == m.n and all(m.mul(P, m.n) is None for P in pts)
    reached = set()
    for A in pts:
        if r.full():
            break
        for B in pts:
            exp, got = _chk_add(S, m, A, B)
            r.ev += 1
            r.dk.add(("add", cfg[0], _path(m, A, B)))
            if got != exp:
                r.viol("C18:tiny:add:%s" % _path(m, A, B), ME + ":replay",
                       {"cfg": cfg, "op": "add", "A": _pt(A), "B": _pt(B)}, exp, got)
            else:
                reached.add(got)
    r.transitions += len(pts) ** 2
    N = m.n
    big = [N * 2**64 + 5, -(N * 2**64) - 5, 2**521 - 1, -(2**300) + 3]
    rg = rng(env, "tiny-mul-%d" % cfg[0])
    big += [rg.getrandbits(512), -rg.getrandbits(512)]
    big += [2**61 - 1 + 1, 2**61 - 1 + 3, 2 + 2 * (2**61 - 1), -(2**61 - 1) - 2]  # equal hash() as 1, 3, 2, -2
    ns = list(range(-2 * N - 1, 3 * N + 2)) + big
    for A in pts:
        if r.full():
            break
        for n in ns:
            if r.full():
                break
            exp, got = _chk_mul(S, m, A, n)
            r.ev += 1
            if got != exp:
                cls = "neg" if n < 0 else ("ge-N" if n >= N else "in-range")
                r.viol("C18:tiny:multiply:%s" % cls, ME + ":replay",
                       {"cfg": cfg, "op": "mul", "A": _pt(A), "n": hex(n)}, exp, got)
    r.transitions += len(pts) * len(ns)
    r.dn += len(pts) * len(ns)
    # privtopub on the tiny curve: every d in [0, 2N] as a 32-byte string
    for d in range(0, 2 * N + 1):
        o = L.call(S.privtopub, d.to_bytes(32, "big"))
        got = L.to_model(o[1]) if o[0] == "ok" else o
        exp = m.mul(m.G, d % N)
        r.ev += 1
        if got != exp:
            r.viol("C18:tiny:privtopub", ME + ":replay",
                   {"cfg": cfg, "op": "priv", "d": hex(d)}, exp, got)
    r.notes["groups_closed"] = int(reached == set(pts))
    r.sample({"cfg": cfg, "points": len(pts), "scalars": [ns[0], ns[-7]], "huge": [hex(x) for x in big[:2]]})
    return r


def _full_points(m, env):
    rg = rng(env, "full-points")
    G = m.G
    ks = [1, 2, 3, m.n - 1, m.n - 2, rg.randrange(1, m.n), rg.randrange(1, m.n)]
    pts = [None] + [m.mul(G, k) for k in ks]
    return pts


def task_full_add(a, env):
    S, m = L.full()
    r = R("full:add")
    pts = _full_points(m, env)
    for A in pts:
        for B in pts:
            exp, got = _chk_add(S, m, A, B)
            r.ev += 1
            r.dk.add((pts.index(A), pts.index(B)))
            if got != exp:
                r.viol("C18:full:add:%s" % _path(m, A, B), ME + ":replay",
                       {"cfg": "full", "op": "add", "A": _pt(A), "B": _pt(B)}, exp, got)
    r.transitions = r.ev
    r.states = len(pts)
    r.sample({"op": "add", "A": _pt(pts[1]), "B": _pt(pts[4])})
    return r


def _full_scalars(m, env, thorough):
    rg = rng(env, "full-scalars")
    N = m.n
    ns = [0, 1, 2, 3, N - 1, N, N + 1, 2 * N + 5, -1, -7, -N, -N - 1, 2**256, 2**256 - 1, 2**255,
          2**53 + 1, m.p, rg.getrandbits(512), -rg.getrandbits(512), rg.randrange(N)]
    if thorough:
        ns += [2**k for k in range(1, 256, 5)] + [2**k - 1 for k in range(2, 257, 7)]
        ns += [rg.getrandbits(256) for _ in range(24)] + [-rg.getrandbits(300) for _ in range(8)]
    return ns


def task_full_mul(a, env):
    S, m = L.full()
    r = R("full:multiply")
    pts = _full_points(m, env)
    pts = [pts[i] for i in (0, 1, 2, 4, 6)]
    ns = _full_scalars(m, env, env["tier"] == "thorough")
    ns = ns[a["lo"]::a["step"]]
    for A in pts:
        for n in ns:
            exp, got = _chk_mul(S, m, A, n)
            r.ev += 1
            r.dk.add((pts.index(A), n))
            if got != exp:
                cls = "neg" if n < 0 else ("ge-N" if n >= m.n else "in-range")
                r.viol("C18:full:multiply:%s" % cls, ME + ":replay",
                       {"cfg": "full", "op": "mul", "A": _pt(A), "n": hex(n)}, exp, got)
    r.transitions = r.ev
    r.sample({"op": "multiply", "A": _pt(pts[1]), "n": hex(ns[-1])})
    return r


def task_full_unreduced(a, env):
    """the same points written with other integer representatives of their coordinates
    (x + P, x - P, y + P): doubling, inverse points, generic addition, multiply"""
    S, m = L.full()
    r = R("full:unreduced-coordinate-representatives")
    P_ = m.p
    pts = _full_points(m, env)[1:5]
    forms = [lambda Q: (Q[0] + P_, Q[1]), lambda Q: (Q[0] - P_, Q[1]), lambda Q: (Q[0], Q[1] + P_),
             lambda Q: (Q[0] + 2 * P_, Q[1] - P_)]
    for A in pts:
        for B in (A, m.neg(A), pts[0], pts[2]):
            for fi, f in enumerate(forms):
                for side in (0, 1):
                    a1, b1 = (f(A), L.to_lib(B)) if side == 0 else (L.to_lib(A), f(B))
                    o = L.call(S.add, a1, b1)
                    got = L.to_model(o[1]) if o[0] == "ok" else o
                    exp = m.add(A, B)
                    r.ev += 1
                    r.dk.add((pts.index(A), _path(m, A, B), fi, side))
                    if got != exp:
                        r.viol("C18:full:add:unreduced-representative:%s" % _path(m, A, B), ME + ":replay_unred",
                               {"A": _pt(A), "B": _pt(B), "form": fi, "side": side}, exp, got)
        for fi, f in enumerate(forms):
            o = L.call(S.multiply, f(A), 5)
            got = L.to_model(o[1]) if o[0] == "ok" else o
            r.ev += 1
            if got != m.mul(A, 5):
                r.viol("C18:full:multiply:unreduced-representative", ME + ":replay_unred",
                       {"A": _pt(A), "B": None, "form": fi, "side": 0}, m.mul(A, 5), got)
    r.transitions = r.ev
    r.sample({"forms": ["(x+P, y)", "(x-P, y)", "(x, y+P)", "(x+2P, y-P)"], "cases": "P+P, P+(-P), generic; multiply by 5"})
    return r


def replay_unred(a):
    S, m = L.full()
    P_ = m.p
    forms = [lambda Q: (Q[0] + P_, Q[1]), lambda Q: (Q[0] - P_, Q[1]), lambda Q: (Q[0], Q[1] + P_),
             lambda Q: (Q[0] + 2 * P_, Q[1] - P_)]
    A, B = _unpt(a["A"]), _unpt(a["B"])
    f = forms[a["form"]]
    if a["B"] is None:
        o = L.call(S.multiply, f(A), 5)
        exp = m.mul(A, 5)
    else:
        a1, b1 = (f(A), L.to_lib(B)) if a["side"] == 0 else (L.to_lib(A), f(B))
        o = L.call(S.add, a1, b1)
        exp = m.add(A, B)
    got = L.to_model(o[1]) if o[0] == "ok" else o
    return None if got == exp else {"expected": exp, "observed": got}


def task_full_priv(a, env):
    S, m = L.full()
    r = R("full:privtopub+constants")
    # constants against SEC 2 (typed in mc.model.params)
    want = (params.SECP_P, params.SECP_N, params.SECP_A, params.SECP_B,
            (params.SECP_GX, params.SECP_GY))
    got = tuple(getattr(S, k, None) for k in ("P", "N", "A", "B", "G"))
    r.ev += 1
    if got != want or (S.Gx, S.Gy) != want[4]:
        r.viol("C18:full:constants", ME + ":replay", {"cfg": "full", "op": "const"},
               [hex(x) if isinstance(x, int) else str(x) for x in want], str(got))
    rg = rng(env, "priv")
    N = m.n
    ds = [1, 2, 3, N - 2, N - 1, 2**128, 2**255, N, N + 1, 0, 2**256 - 1] + [rg.randrange(1, N) for _ in range(4)]
    if env["tier"] == "thorough":
        ds += [2**k for k in range(1, 256, 9)] + [rg.randrange(1, N) for _ in range(16)]
    for d in ds:
        o = L.call(S.privtopub, d.to_bytes(32, "big"))
        g = L.to_model(o[1]) if o[0] == "ok" else o
        exp = m.mul(m.G, d % N)
        r.ev += 1
        r.dk.add(d)
        if g != exp:
            r.viol("C18:full:privtopub", ME + ":replay", {"cfg": "full", "op": "priv", "d": hex(d)}, exp, g)
    # text keys (the module accepts str, one character per octet): ASCII and Latin-1
    for txt in ("0" * 31 + "7", "\xe9" * 32, "\x00" * 31 + "\xff"):
        d = int.from_bytes(txt.encode("latin-1"), "big")
        o = L.call(S.privtopub, txt)
        g = L.to_model(o[1]) if o[0] == "ok" else o
        r.ev += 1
        r.dk.add(txt)
        if g != m.mul(m.G, d % N):
            r.viol("C18:full:privtopub:text-key", ME + ":replay", {"cfg": "full", "op": "privtxt", "txt": txt.encode("latin-1").hex()},
                   m.mul(m.G, d % N), g)
    # byte-string keys of other lengths, incl. 64 bytes that happen to be ASCII hex digits / digits / spaces
    for kb in (b"deadbeef" * 8, b"0123456789abcdef" * 4, b"00" * 31 + b"07", b"12345678" * 8, b" " * 62 + b"0f", b"\x01" * 64,
               b"ABCDEF01" * 8, b"7", b"\x00" * 33, bytes(range(48)), bytearray(b"deadbeef" * 8)):
        d = int.from_bytes(bytes(kb), "big")
        o = L.call(S.privtopub, kb)
        g = L.to_model(o[1]) if o[0] == "ok" else o
        r.ev += 1
        r.dk.add(bytes(kb))
        if g != m.mul(m.G, d % N):
            r.viol("C18:full:privtopub:key-of-%d-bytes" % len(kb), ME + ":replay", {"cfg": "full", "op": "privbytes", "kb": bytes(kb).hex()},
                   m.mul(m.G, d % N), g)
    # published anchor (also in the repository's own suite): the key of d = 1 is G
    r.sample({"op": "privtopub", "d": hex(ds[3])})
    return r


# ------------------------------------------------------------------ modular inverse corners, error-path histories
def _near_phi(n):
    """floor(n / phi): residues there make Euclid's algorithm take its longest runs (quotients all 1)"""
    from math import isqrt
    S_ = 10 ** 200
    return (2 * n * S_) // (S_ + isqrt(5 * S_ * S_))


def _small_primes(hi):
    return [q for q in range(2, hi) if all(q % d for d in range(2, int(q ** 0.5) + 1))]


def inv_case(a_, n):
    S, _m = L.full()
    f = getattr(S, "inv", None)
    if f is None:
        return None
    o = L.call(f, a_, n)
    exp = ("ok", pow(a_, -1, n) if a_ % n else 0)
    return None if o == exp else (exp, o)


def phi_add_case(k, which):
    """add / from_jacobian where the inverted value lies next to P/phi: two curve points whose
    x-coordinates differ by floor(P/phi) + k (scanning k upward until both are on the curve)"""
    S, m = L.full()
    base = _near_phi(m.p) if which == 0 else m.p - _near_phi(m.p)
    A = m.mul(m.G, 7 + which)
    out = []
    kk = k
    while True:
        B = m.lift_x((A[0] + base + kk) % m.p, False)
        if B is not None:
            break
        kk += 1
    exp, got = _chk_add(S, m, A, B)
    out.append(("add:x-difference-near-P/phi", exp, got, kk))
    fj = getattr(S, "from_jacobian", None)
    if fj is not None:
        z = (base + k) % m.p
        Q = m.mul(m.G, 11)
        jac = (Q[0] * z * z % m.p, Q[1] * z * z * z % m.p, z)
        o = L.call(fj, jac)
        out.append(("from_jacobian:z-near-P/phi", Q, L.to_model(o[1]) if o[0] == "ok" else o, k))
    return out


def task_inv(a, env):
    S, m = L.full()
    r = R("modular-inverse:all-residues-of-small-moduli+windows-near-n/phi")
    if getattr(S, "inv", None) is None:
        r.skipped.append("secp256k1.inv")
    else:
        for q in _small_primes(a["hi"]):
            for x in range(q):
                bad = inv_case(x, q)
                r.ev += 1
                if bad:
                    r.viol("C18:inv:small-modulus", ME + ":replay_inv", {"x": hex(x), "n": hex(q)}, bad[0], bad[1])
        for n in (m.p, m.n):
            for base in (_near_phi(n), n - _near_phi(n)):
                for x in range(base - a["w"], base + a["w"]):
                    bad = inv_case(x, n)
                    r.ev += 1
                    if bad:
                        r.viol("C18:inv:near-n/phi", ME + ":replay_inv", {"x": hex(x), "n": hex(n)}, bad[0], bad[1])
            from .C14 import quotient_size_inputs
            for x in quotient_size_inputs(n):  # partial quotients of every size (dense divisors)
                bad = inv_case(x, n)
                r.ev += 1
                if bad:
                    r.viol("C18:inv:large-partial-quotient", ME + ":replay_inv", {"x": hex(x), "n": hex(n)}, bad[0], bad[1])
    # values whose inverse is small or next to a power of two (z = inv(Z) = t, P - t): reduction / carry corners
    fj = getattr(S, "from_jacobian", None)
    ts = sorted(set(list(range(1, 40)) + [2 ** k + dlt for k in range(8, 80) for dlt in (-1, 0, 1)] + [2 ** 32 + 977 + dlt for dlt in (-2, -1, 0, 1, 2)]
                    + [977, 2 ** 32, 2 ** 33 - 977, 3 * 2 ** 20 + 5]))
    Q = m.mul(m.G, 11)
    for t in ts:
        for Z in (pow(t, -1, m.p), m.p - pow(t, -1, m.p), t, m.p - t):
            if fj is not None:
                jac = (Q[0] * Z * Z % m.p, Q[1] * Z * Z * Z % m.p, Z)
                o = L.call(fj, jac)
                got = L.to_model(o[1]) if o[0] == "ok" else o
                r.ev += 1
                if got != Q:
                    r.viol("C18:full:from_jacobian:z-with-small-inverse", ME + ":replay_smallinv", {"t": hex(t), "Z": hex(Z)}, Q, got)
            # the same through add: two curve points whose x-coordinates differ by Z (when both are on the curve)
            A = m.mul(m.G, 7)
            B = m.lift_x((A[0] + Z) % m.p, False)
            if B is not None:
                for (X, Y) in ((A, B), (B, A)):
                    exp, got = _chk_add(S, m, X, Y)
                    r.ev += 1
                    if exp != got:
                        r.viol("C18:full:add:x-difference-with-small-inverse", ME + ":replay_smallinv", {"t": hex(t), "Z": hex(Z)}, exp, got)
    for which in (0, 1):
        for k in range(0, a["w"], max(1, a["w"] // 40)):
            for lbl, exp, got, kk in phi_add_case(k, which):
                r.ev += 1
                r.dk.add((which, k, lbl))
                if exp != got:
                    r.viol("C18:full:%s" % lbl, ME + ":replay_phi", {"k": k, "which": which}, exp, got)
    r.dn += r.ev - len(r.dk)
    r.transitions = r.ev
    r.sample({"inv": "inv(x, q) for every x of every prime q < %d; x in floor(n/phi) +- %d for n = P, N" % (a["hi"], a["w"]),
              "add": "points whose x-coordinates differ by floor(P/phi) + k"})
    return r


def replay_smallinv(a):
    S, m = L.full()
    Z = int(a["Z"], 16)
    Q = m.mul(m.G, 11)
    fj = getattr(S, "from_jacobian", None)
    if fj is not None:
        o = L.call(fj, (Q[0] * Z * Z % m.p, Q[1] * Z * Z * Z % m.p, Z))
        got = L.to_model(o[1]) if o[0] == "ok" else o
        if got != Q:
            return {"expected": Q, "observed": got}
    A = m.mul(m.G, 7)
    B = m.lift_x((A[0] + Z) % m.p, False)
    if B is not None:
        for (X, Y) in ((A, B), (B, A)):
            exp, got = _chk_add(S, m, X, Y)
            if exp != got:
                return {"expected": exp, "observed": got}
    return None


def replay_inv(a):
    bad = inv_case(int(a["x"], 16), int(a["n"], 16))
    return None if not bad else {"expected": bad[0], "observed": bad[1]}


def replay_phi(a):
    for lbl, exp, got, kk in phi_add_case(a["k"], a["which"]):
        if exp != got:
            return {"case": lbl, "expected": exp, "observed": got}
    return None


def errpath_case(cfg, i, j):
    """history: multiply(P1, 5); calls on another point P2 that fail on their scalar / operand; then P1 again"""
    S, m = L.get(cfg)
    P1, P2 = m.mul(m.G, 2 + i), m.mul(m.G, 3 + i + j)
    out = []
    L.call(S.multiply, L.to_lib(P1), 5)
    for lbl, f in (("scalar None", lambda: S.multiply(L.to_lib(P2), None)), ("scalar str", lambda: S.multiply(L.to_lib(P2), "3")),
                   ("scalar bytes", lambda: S.multiply(L.to_lib(P2), b"\x03")), ("scalar float", lambda: S.multiply(L.to_lib(P2), 2.5)),
                   ("add(P2, None)", lambda: S.add(L.to_lib(P2), None)), ("point None", lambda: S.multiply(None, 3)),
                   ("point of 3 coordinates", lambda: S.multiply(L.to_lib(P2) + (1,), 3)),
                   ("privtopub(None)", lambda: S.privtopub(None))):
        L.call(f)
        for n in (7, 5, m.n - 1):
            exp, got = _chk_mul(S, m, P1, n)
            out.append(("multiply(P1, %d) after %s" % (n, lbl), exp, got))
        exp, got = _chk_add(S, m, P1, P2)
        out.append(("add(P1, P2) after %s" % lbl, exp, got))
        o = L.call(S.privtopub, (5).to_bytes(32, "big"))
        out.append(("privtopub(5) after %s" % lbl, m.mul(m.G, 5 % m.n), L.to_model(o[1]) if o[0] == "ok" else o))
        L.call(S.multiply, L.to_lib(P1), 5)
    return out


def task_errpath(a, env):
    r = R("after-failing-calls")
    for cfg in a["cfgs"]:
        for i in range(2):
            for j in range(1, 3):
                for lbl, exp, got in errpath_case(cfg, i, j):
                    r.ev += 1
                    r.dk.add((str(cfg), i, j, lbl))
                    if exp != got:
                        r.viol("C18:%s:after-failing-call" % ("full" if cfg == "full" else "tiny"), ME + ":replay_errpath",
                               {"cfg": cfg, "i": i, "j": j}, exp, got, note=lbl)
                        break
    r.transitions = r.ev
    r.sample({"history": "multiply(P1, 5); multiply(P2, None) raises; multiply(P1, 7) ..."})
    return r


def replay_errpath(a):
    for lbl, exp, got in errpath_case(a["cfg"], a["i"], a["j"]):
        if exp != got:
            return {"step": lbl, "expected": exp, "observed": got}
    return None


def fedback_cases(cfg):
    """[(label, expected, observed)] raw outputs of the library as operands; Jacobian triples (Gx, Gy, zeta) with
    zeta^6 = 1 (curve points that share X and Y with the generator); calls from a deep caller stack"""
    S, m = L.get(cfg)
    G = m.G
    out = []

    def norm(o):
        return L.to_model(o[1]) if o[0] == "ok" else o

    R3 = L.call(S.multiply, L.to_lib(G), 3)
    if R3[0] == "ok":
        raw = R3[1]
        P3 = m.mul(G, 3)
        out += [("add(multiply(G, 3) as returned, itself)", m.add(P3, P3), norm(L.call(S.add, raw, raw))),
                ("add(multiply(G, 3) as returned, G)", m.add(P3, G), norm(L.call(S.add, raw, L.to_lib(G)))),
                ("multiply(multiply(G, 3) as returned, 5)", m.mul(P3, 5), norm(L.call(S.multiply, raw, 5))),
                ("add(add(G, G) as returned, multiply(G, 2) as returned)", m.mul(G, 4),
                 norm(L.call(S.add, S.add(L.to_lib(G), L.to_lib(G)), S.multiply(L.to_lib(G), 2))))]
    jm, ja, fj = getattr(S, "jacobian_multiply", None), getattr(S, "jacobian_add", None), getattr(S, "from_jacobian", None)
    p = m.p
    if jm is not None and fj is not None and p % 6 == 1:
        g = 2
        while pow(g, (p - 1) // 2, p) == 1 or pow(g, (p - 1) // 3, p) == 1:
            g += 1
        zeta = pow(g, (p - 1) // 6, p)
        for k in range(1, 6):
            z = pow(zeta, k, p)
            iz2, iz3 = pow(z * z % p, -1, p), pow(z * z * z % p, -1, p)
            Pa = (G[0] * iz2 % p, G[1] * iz3 % p)
            if not m.on_curve(Pa):
                continue
            t = (G[0], G[1], z)
            for n in (2, 5, m.n - 1):
                o = L.call(lambda: fj(jm(t, n)))
                out.append(("jacobian_multiply((Gx, Gy, zeta^%d), %d)" % (k, n if n < 10 else -1), m.mul(Pa, n), norm(o)))
            if ja is not None:
                o = L.call(lambda: fj(ja(t, (G[0], G[1], 1))))
                out.append(("jacobian_add((Gx, Gy, zeta^%d), (Gx, Gy, 1))" % k, m.add(Pa, G), norm(o)))

    def deep(n_, f):
        return f() if n_ <= 0 else deep(n_ - 1, f)

    if cfg == "full":
        import sys
        import inspect
        for depth in range(100, 990, 110):
            old = sys.getrecursionlimit()
            try:
                sys.setrecursionlimit(max(1000, len(inspect.stack(0)) + 60))
                o = deep(depth, lambda: L.call(S.multiply, L.to_lib(G), m.n - 2))
            except RecursionError:
                o = ("raise", "RecursionError")
            finally:
                sys.setrecursionlimit(old)
            if o == ("raise", "RecursionError"):
                continue
            out.append(("multiply(G, N - 2) with %d caller frames" % depth, m.mul(G, m.n - 2), norm(o)))
    return out


def task_fedback(a, env):
    r = R("returned-objects-as-operands+triples-sharing-coordinates-with-G+deep-stack")
    for cfg in a["cfgs"]:
        for i, (lbl, exp, got) in enumerate(fedback_cases(cfg)):
            r.ev += 1
            r.dk.add((str(cfg), lbl))
            if exp != got:
                r.viol("C18:%s:%s" % ("full" if cfg == "full" else "tiny", lbl.split("(")[0]), ME + ":replay_fedback", {"cfg": cfg, "i": i}, exp, got, note=lbl)
    r.transitions = r.ev
    r.sample({"cases": "add(multiply(G,3), multiply(G,3)) on the returned objects; jacobian_multiply((Gx, Gy, zeta), n), zeta^6 = 1; multiply at caller depth 100..980"})
    return r


def replay_fedback(a):
    lbl, exp, got = fedback_cases(a["cfg"])[a["i"]]
    return None if exp == got else {"case": lbl, "expected": exp, "observed": got}


def sweep_case(cfg, which, n):
    from .. import lib as _lib
    S, m = L.get(cfg)
    G = m.G
    if which == "multiply":
        call = lambda x: (lambda o: L.to_model(o[1]) if o[0] == "ok" else o)(L.call(S.multiply, L.to_lib(x[0]), x[1]))  # noqa: E731
        expect = lambda x: m.mul(x[0], x[1] % m.n)  # noqa: E731
        anchors = [(G, 5), (G, m.n - 1), (m.mul(G, 3), 7), (m.mul(G, 2), 2)]
        Q, pts = G, []
        for _ in range(n):
            Q = m.add(Q, m.mul(G, 2))
            pts.append(Q)
        distinct = ((pts[j], 3 + j) for j in range(n))
    else:
        call = lambda x: (lambda o: L.to_model(o[1]) if o[0] == "ok" else o)(L.call(S.privtopub, x))  # noqa: E731
        expect = lambda x: m.mul(G, int.from_bytes(x, "big") % m.n)  # noqa: E731
        anchors = [(i + 1).to_bytes(32, "big") for i in range(4)]
        distinct = ((7 + j).to_bytes(32, "big") for j in range(n))
    return _lib.sweep(call, anchors, distinct, n, expect)


def task_sweep(a, env):
    r = R("anchors-again-after-n-distinct-calls")
    for cfg, n in a["cases"]:
        for which in ("multiply", "privtopub"):
            bad = sweep_case(cfg, which, n)
            r.ev += n + 4 * 20
            r.dk.add((str(cfg), which))
            if bad:
                r.viol("C18:%s:%s:stale-after-many-distinct" % ("full" if cfg == "full" else "tiny", which), ME + ":replay_sweep",
                       {"cfg": cfg, "which": which, "n": bad[0]}, bad[2], bad[3], note="anchor %d after %d distinct calls" % (bad[1], bad[0]))
    r.transitions = r.ev
    r.sample({"history": "multiply(a0..a3); multiply(d1); multiply(a0..a3); multiply(d2); ..."})
    return r


def replay_sweep(a):
    bad = sweep_case(a["cfg"], a["which"], a["n"])
    return None if not bad else {"after": bad[0], "anchor": bad[1], "expected": bad[2], "observed": bad[3]}


def replay(a):
    S, m = L.get(a["cfg"])
    op = a["op"]
    if op == "add":
        exp, got = _chk_add(S, m, _unpt(a["A"]), _unpt(a["B"]))
    elif op == "mul":
        exp, got = _chk_mul(S, m, _unpt(a["A"]), int(a["n"], 16))
    elif op == "privtxt":
        txt = bytes.fromhex(a["txt"]).decode("latin-1")
        d = int.from_bytes(bytes.fromhex(a["txt"]), "big")
        o = L.call(S.privtopub, txt)
        got = L.to_model(o[1]) if o[0] == "ok" else o
        exp = m.mul(m.G, d % m.n)
    elif op == "privbytes":
        kb = bytes.fromhex(a["kb"])
        o = L.call(S.privtopub, kb)
        got = L.to_model(o[1]) if o[0] == "ok" else o
        exp = m.mul(m.G, int.from_bytes(kb, "big") % m.n)
    elif op == "priv":
        d = int(a["d"], 16)
        o = L.call(S.privtopub, d.to_bytes(32, "big"))
        got = L.to_model(o[1]) if o[0] == "ok" else o
        exp = m.mul(m.G, d % m.n)
    else:
        exp = (params.SECP_P, params.SECP_N, params.SECP_A, params.SECP_B,
               (params.SECP_GX, params.SECP_GY), params.SECP_GX, params.SECP_GY)
        got = tuple(getattr(S, k, None) for k in ("P", "N", "A", "B", "G", "Gx", "Gy"))
    return None if got == exp else {"expected": exp, "observed": got}


def run(ctx):
    ctx.rule = (
        "tiny curves: every ordered pair of group elements (incl. identity) through add, every "
        "(point, n) with n in [-2N-1, 3N+1] plus 6 huge |n| through multiply, every d in [0, 2N] "
        "through privtopub - a case is one argument tuple, all distinct; full size: complete "
        "products of the point and scalar alphabets"
    )
    ctx.assumptions = [
        "the configuration loader substitutes only the module-level constants P, N, A, B, Gx, Gy "
        "(function bodies are the working tree's)",
        "identity is encoded as (0, 0) (statement); (0, 0) is not a curve point since B != 0",
    ]
    curves = ecdsa.TINY if ctx.quick else ecdsa.TINY + ecdsa.TINY_MORE
    ctx.bounds = {"tiny_curves_P_B_N": [list(c) for c in curves],
                  "tiny_scalars": "[-2N-1, 3N+1] + 6 huge",
                  "full_point_alphabet": 8, "full_scalar_alphabet": 20 if ctx.quick else 120}
    tasks = [("tiny", {"cfg": list(c)}) for c in reversed(curves)]
    tasks.append(("full_add", {}))
    step = 4 if ctx.quick else 12
    tasks += [("full_mul", {"lo": i, "step": step}) for i in range(step)]
    tasks.append(("full_priv", {}))
    tasks.append(("full_unreduced", {}))
    tasks.append(("inv", {"hi": 500 if ctx.quick else 2000, "w": 1500 if ctx.quick else 20000}))
    tasks.append(("errpath", {"cfgs": ["full", list(curves[0]), list(curves[3])]}))
    tasks.append(("fedback", {"cfgs": ["full", list(curves[0]), list(curves[1]), list(curves[3])]}))
    tasks.append(("sweep", {"cases": [["full", 150 if ctx.quick else 1100]]}))
    tasks.append(("sweep", {"cases": [[list(curves[0]), 600 if ctx.quick else 5000]]}))
    ctx.pmap(ME, tasks)

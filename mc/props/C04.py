"""C04 - verification is total and rejects malformed or unsafe keys and signatures.

Byte-string alphabets for public keys and, separately, signatures: every length class (thorough:
all lengths 0..200) of zero / 0xff / truncated-or-padded valid encodings; valid encodings with
extra leading / trailing bytes; all 8 flag combinations x coordinate classes (x second-word
classes); identity encodings; points with torsion / cofactor components; seeded strings.
Deviation bounding: default call = (valid key, message, valid signature); every single
deviation (bad key OR bad signature), a set of double deviations, and a bad item in EVERY
position of 1-, 2-, 3-element lists for the aggregate entry points; x 3 suites x 5 entry points.
Oracle: result `is True or is False`, no exception of any type; False unless the model decodes
a 48-byte key to a non-identity subgroup point and a 96-byte signature to a subgroup point (then
the verdict is byte equality with the model signature).  Monitor: every argument of every
pairing / Miller-loop call made underneath is checked by the model (on curve, killed by r).
"""
from ..core import R, rng
from ..model import bls as MB
from ..model import params, zcash
from . import blslib as BL

LEVEL = "exploration"
ME = "mc.props.C04"
R_ = MB.R
P = params.BLS_P
E1, E2 = BL.E1, BL.E2

SK = [0x1F3A5C7E9B2D4F60718293A4B5C6D7E8F90A1B2C3D4E5F60718293A4B5C6D7E % R_, 5, R_ - 2]
MSGS = [b"", b"m1", bytes(i & 0xFF for i in range(1024))]


# ------------------------------------------------------------------ alphabets
_memo = {}


def key_alphabet(env, thorough):
    k = ("k", env["seed"], thorough)
    if k not in _memo:
        _memo[k] = _key_alphabet(env, thorough)
    return _memo[k]


def sig_alphabet(env, thorough, suite="basic", mi=0):
    k = ("s", env["seed"], thorough, suite, mi)
    if k not in _memo:
        _memo[k] = _sig_alphabet(env, thorough, suite, mi)
    return _memo[k]


def _key_alphabet(env, thorough):
    g = rng(env, "keyalpha")
    pk = MB.sk_to_pk(SK[0])
    out = [("valid", pk)]
    lens = list(range(0, 201)) if thorough else [0, 1, 47, 48, 49, 95, 96, 97, 200]
    for n in lens:
        out.append(("len%d:zeros" % n, b"\x00" * n))
        out.append(("len%d:ff" % n, b"\xff" * n))
        if n != 48:
            out.append(("len%d:valid-resized" % n, (pk + b"\x00" * 200)[:n] if n > 48 else pk[:n]))
    for k in (1, 2, 10):
        out.append(("leading-00x%d" % k, b"\x00" * k + pk))
        out.append(("leading-ffx%d" % k, b"\xff" * k + pk))
    out.append(("leading-80", b"\x80" + pk))
    out.append(("trailing-00", pk + b"\x00"))
    out.append(("trailing-pk", pk + pk))
    out.append(("truncated", pk[:-1]))
    # flags x x-classes
    G = params.bls_g1()
    sub_x = E1.mul(G, g.randrange(2, R_))[0]
    x = 3
    nons = off = None
    while nons is None or off is None:
        pts = E1.lift_x(x)
        if pts and nons is None and E1.mul(pts[0], R_) is not None:
            nons = x
        if not pts and off is None:
            off = x
        x += 1
    xs = [("x=0", 0), ("x=1", 1), ("x=2", 2), ("x=p-1", P - 1), ("x=p", P), ("x=p+1", P + 1),
          ("x=2^381-1", (1 << 381) - 1), ("x=subgroup", sub_x), ("x=non-subgroup", nons), ("x=off-curve", off)]
    for xl, xv in xs:
        for fl in range(8):
            out.append(("flags=%d%d%d:%s" % (fl >> 2, (fl >> 1) & 1, fl & 1, xl), ((fl << 381) | xv).to_bytes(48, "big")))
    for lbl, T in BL.torsion_points("E1").items():
        out.append(("point:" + lbl, MB.g1_bytes(T)))
        out.append(("point:G+" + lbl, MB.g1_bytes(E1.add(G, T))))
    for lbl, b in BL.reencodings_g1(pk):
        out.append(("reencoding:" + lbl, b))
    for i in range(6 if not thorough else 40):
        out.append(("seeded", bytes(g.getrandbits(8) for _ in range(48))))
        out.append(("seeded-compressed", bytes([0x80 | g.getrandbits(5)]) + bytes(g.getrandbits(8) for _ in range(47))))
    return out


def _sig_alphabet(env, thorough, suite="basic", mi=0):
    g = rng(env, "sigalpha")
    S = MB.sign(suite, SK[0], MSGS[mi])
    out = [("valid", S)]
    lens = list(range(0, 201)) if thorough else [0, 1, 47, 48, 49, 95, 96, 97, 200]
    for n in lens:
        out.append(("len%d:zeros" % n, b"\x00" * n))
        out.append(("len%d:ff" % n, b"\xff" * n))
        if n != 96:
            out.append(("len%d:valid-resized" % n, (S + b"\x00" * 200)[:n] if n > 96 else S[:n]))
    for k in (1, 2, 10):
        out.append(("leading-00x%d" % k, b"\x00" * k + S))
        out.append(("leading-ffx%d" % k, b"\xff" * k + S))
    out.append(("trailing-00", S + b"\x00"))
    out.append(("truncated", S[:-1]))
    out.append(("first-word-only", S[:48]))
    G2 = params.bls_g2()
    kG = E2.mul(G2, g.randrange(2, R_))
    c0 = 0
    nons = off = None
    while nons is None or off is None:
        pts = E2.lift_x((c0, 1))
        if pts and nons is None and E2.mul(pts[0], R_) is not None:
            nons = (c0, 1)
        if not pts and off is None:
            off = (c0, 1)
        c0 += 1
    firsts = [("x1=0", 0), ("x1=1", 1), ("x1=p-1", P - 1), ("x1=p", P), ("x1=2^381-1", (1 << 381) - 1),
              ("x1=subgroup", kG[0][1])]
    seconds = {"x1=subgroup": [("x0=matching", kG[0][0]), ("x0=mismatching", (kG[0][0] + 1) % P)],
               "x1=1": [("x0=non-subgroup", nons[0]), ("x0=off-curve", off[0])]}
    generic = [("x0=0", 0), ("x0=p", P), ("x0=2^381-1", (1 << 381) - 1), ("x0=only-flag-a", 1 << 381),
               ("x0=only-flag-b", 1 << 382), ("x0=only-flag-c", 1 << 383), ("x0=only-flags-abc", 7 << 381),
               ("x0:flag-a", kG[0][0] | (1 << 381)),
               ("x0:flag-b", kG[0][0] | (1 << 382)), ("x0:flag-c", kG[0][0] | (1 << 383))]
    for l1, x1 in firsts:
        for l2, z2 in seconds.get(l1, []) + generic:
            for fl in range(8):
                z1 = (fl << 381) | x1
                out.append(("flags=%d%d%d:%s:%s" % (fl >> 2, (fl >> 1) & 1, fl & 1, l1, l2),
                            z1.to_bytes(48, "big") + z2.to_bytes(48, "big")))
    Sp = MB.sign_point(suite, SK[0], MSGS[mi])
    for lbl, T in BL.torsion_points("E2").items():
        out.append(("point:" + lbl, MB.g2_bytes(T)))
        out.append(("point:S+" + lbl, MB.g2_bytes(E2.add(Sp, T))))
    for lbl, b in BL.reencodings_g2(S):
        out.append(("reencoding:" + lbl, b))
    out.append(("point:-S", MB.g2_bytes(E2.neg(Sp))))
    out.append(("point:identity", MB.g2_bytes(None)))
    for i in range(6 if not thorough else 40):
        out.append(("seeded", bytes(g.getrandbits(8) for _ in range(96))))
        out.append(("seeded-compressed", bytes([0x80 | g.getrandbits(5)]) + bytes(g.getrandbits(8) for _ in range(95))))
    return out


# ------------------------------------------------------------------ one call
def expected_single(suite, entry, pk, mi, sig):
    if entry == "KeyValidate":
        return MB.key_validate(pk)
    if not MB.key_validate(pk) or not MB.sig_in_subgroup(sig):
        return False
    if pk != MB.sk_to_pk(SK[0]):
        return False  # uniqueness: no string of our domain is a signature under another key
    if entry == "PopVerify":
        return sig == MB.pop_prove(SK[0])
    return sig == MB.sign(suite, SK[0], MSGS[mi])


def run_call(suite, entry, args):
    """args: entry-specific. Returns (expected, observed, monitor events)."""
    C = BL.suite_cls(suite)
    with BL.Monitor() as mon:
        if entry == "KeyValidate":
            pk, = args
            exp = expected_single(suite, entry, pk, 0, None)
            got = BL.verdict(C.KeyValidate, pk)
        elif entry == "Verify":
            pk, mi, sig = args
            exp = expected_single(suite, entry, pk, mi, sig)
            got = BL.verdict(C.Verify, pk, MSGS[mi], sig)
        elif entry == "PopVerify":
            pk, sig = args
            exp = expected_single(suite, entry, pk, 0, sig)
            got = BL.verdict(C.PopVerify, pk, sig)
        elif entry == "AggregateVerify":
            pks, mis, sig = args
            ok = all(MB.key_validate(k) for k in pks) and MB.sig_in_subgroup(sig) and len(pks) >= 1
            exp = False
            if ok:
                ours = [MB.sk_to_pk(s) for s in SK]
                if all(k in ours for k in pks):
                    sks = [SK[ours.index(k)] for k in pks]
                    want = MB.aggregate([MB.sign(suite, s, MSGS[m]) for s, m in zip(sks, mis)])
                    exp = sig == want and (suite != "basic" or len(set(mis)) == len(mis))
            got = BL.verdict(C.AggregateVerify, list(pks), [MSGS[m] for m in mis], sig)
        elif entry == "AggregateVerify:cancelling-keys":
            # two keys that cancel (sk and r - sk) on one message: the identity is the one
            # valid aggregate; every other string - in particular every non-canonical encoding
            # of the identity - must be rejected
            sig, = args
            pks = [MB.sk_to_pk(SK[0]), MB.sk_to_pk(R_ - SK[0])]
            exp = (sig == MB.g2_bytes(None)) and suite != "basic" and suite != "aug"
            if suite == "basic":
                exp = False  # repeated message
            got = BL.verdict(C.AggregateVerify, pks, [MSGS[0], MSGS[0]], sig)
        elif entry == "FastAggregateVerify:cancelling-keys":
            # pk and -pk: the aggregated key is the identity -> False for every signature, no exception
            sig, = args
            pk = MB.sk_to_pk(SK[0])
            exp = False
            got = BL.verdict(C.FastAggregateVerify, [pk, bytes([pk[0] ^ 0x20]) + pk[1:]], MSGS[0], sig)
        elif entry == "FastAggregateVerify:cancelling-torsion":
            # two keys outside the subgroup whose cofactor components cancel (a*G + T, b*G - T), with
            # the honest signature of the aggregate secret a + b: every key must be valid on its own
            which, = args
            T = BL.torsion_points("E1")[which]
            G = params.bls_g1()
            a_, b_ = SK[1], SK[2]
            pks = [MB.g1_bytes(E1.add(E1.mul(G, a_), T)), MB.g1_bytes(E1.add(E1.mul(G, b_), E1.neg(T)))]
            sig = MB.sign(suite, (a_ + b_) % R_, MSGS[0])
            exp = False
            got = BL.verdict(C.FastAggregateVerify, pks, MSGS[0], sig)
        else:  # FastAggregateVerify
            pks, mi, sig = args
            ok = all(MB.key_validate(k) for k in pks) and MB.sig_in_subgroup(sig) and len(pks) >= 1
            exp = False
            if ok:
                ours = [MB.sk_to_pk(s) for s in SK]
                if all(k in ours for k in pks):
                    sks = [SK[ours.index(k)] for k in pks]
                    exp = sig == MB.aggregate([MB.sign(suite, s, MSGS[mi]) for s in sks])
            got = BL.verdict(C.FastAggregateVerify, list(pks), MSGS[mi], sig)
    return exp, got, mon.events


def _judge(r, suite, entry, label, args, jargs):
    exp, got, events = run_call(suite, entry, args)
    r.ev += 1
    if got != exp:
        if got is True:
            kind = "accepts-invalid"
        elif got is False:
            kind = "rejects-valid"
        else:
            kind = "raises" if str(got).startswith("raise") else "not-a-bool"
        r.viol("C04:%s:%s:%s:%s" % (suite, entry, kind, label.split(":")[0]), ME + ":replay", jargs, exp, got,
               note=label)
    for (fn, idx, prob) in events:
        r.viol("C04:%s:%s:monitor:%s-arg%d:%s" % (suite, entry, fn, idx, prob.split(":")[0]), ME + ":replay",
               jargs, "every pairing argument on its curve and in the prime-order subgroup", prob, note=label)


def fedback_case(suite, which):
    """[(label, expected, observed, monitor events)] the object a library function returned for an invalid key
    (the aggregate of a one-key list, a decoded-and-re-encoded key) presented as a public key"""
    C = BL.suite_cls(suite)
    P = BL.suite_cls("pop")
    G = params.bls_g1()
    T = BL.torsion_points("E1")["T_11"]
    bad = {"sk*G + T": MB.g1_bytes(E1.add(E1.mul(G, SK[0]), T)), "T": MB.g1_bytes(T),
           "identity": MB.g1_bytes(None)}[which]
    sig = MB.sign(suite, SK[0], MSGS[0])
    out = []
    objs = []
    agg = getattr(P, "_AggregatePKs", None)
    if agg is not None:
        o = BL.call(agg, [bad])
        if o[0] == "ok":
            objs.append(("_AggregatePKs([key])", o[1]))
        o = BL.call(agg, [bad, bad])
        if o[0] == "ok":
            objs.append(("_AggregatePKs([key, key])", o[1]))
    g2p = __import__("importlib").import_module("py_ecc.bls.g2_primitives")
    o = BL.call(lambda: g2p.G1_to_pubkey(g2p.pubkey_to_G1(bad)))
    if o[0] == "ok":
        objs.append(("G1_to_pubkey(pubkey_to_G1(key))", o[1]))
    for lbl, obj in objs:
        try:
            want_valid = MB.key_validate(bytes(obj))
        except Exception:  # noqa: BLE001
            want_valid = False
        for entry, f in (("KeyValidate", lambda: C.KeyValidate(obj)), ("Verify", lambda: C.Verify(obj, MSGS[0], sig)),
                         ("AggregateVerify", lambda: C.AggregateVerify([obj], [MSGS[0]], sig))) + \
                ((("FastAggregateVerify", lambda: C.FastAggregateVerify([obj], MSGS[0], sig)), ("PopVerify", lambda: C.PopVerify(obj, sig))) if suite == "pop" else ()):
            with BL.Monitor() as mon:
                got = BL.verdict(f)
            exp = want_valid if entry == "KeyValidate" else False
            out.append(("%s(%s of %s)" % (entry, lbl, which), exp, got, list(mon.events)))
    return out


def task_fedback(a, env):
    r = R("returned-objects-as-keys:%s" % a["suite"])
    for which in ("sk*G + T", "T", "identity"):
        for lbl, exp, got, events in fedback_case(a["suite"], which):
            r.ev += 1
            r.dk.add(lbl)
            if got != exp:
                r.viol("C04:%s:returned-object-as-key:%s" % (a["suite"], lbl.split("(")[0]), ME + ":replay_fedback",
                       {"suite": a["suite"], "which": which}, exp, got, note=lbl)
            for (fn, idx, prob) in events:
                r.viol("C04:%s:returned-object-as-key:monitor:%s-arg%d" % (a["suite"], fn, idx), ME + ":replay_fedback",
                       {"suite": a["suite"], "which": which}, "every pairing argument on its curve and in the prime-order subgroup", prob, note=lbl)
    r.sample({"suite": a["suite"], "case": "KeyValidate(G2ProofOfPossession._AggregatePKs([key outside the subgroup]))"})
    return r


def replay_fedback(a):
    for lbl, exp, got, events in fedback_case(a["suite"], a["which"]):
        if got != exp or events:
            return {"case": lbl, "expected": exp, "observed": got, "monitor": [list(e) for e in events][:3]}
    return None


def dash_o_cases(suite):
    """[(label, key bytes, entry)] evaluated in an interpreter started with -O (assert statements stripped)"""
    G = params.bls_g1()
    T = BL.torsion_points("E1")["T_11"]
    keys = [("valid", MB.sk_to_pk(SK[0])), ("identity", MB.g1_bytes(None)), ("T_11", MB.g1_bytes(T)),
            ("sk*G + T", MB.g1_bytes(E1.add(E1.mul(G, SK[0]), T))), ("x not on curve", b"\x9a" + b"\x11" * 47)]
    entries = ["KeyValidate", "Verify", "AggregateVerify"] + (["FastAggregateVerify", "PopVerify"] if suite == "pop" else [])
    return [(kl, kb, e) for kl, kb in keys for e in entries]


def dash_o_run(suite):
    """verdicts of dash_o_cases(suite) from a `python -O` interpreter: list of True / False / 'raise X'"""
    import json
    import os
    import subprocess
    import sys
    cases = dash_o_cases(suite)
    sig = MB.sign(suite, SK[0], MSGS[0])
    pop = MB.pop_prove(SK[0])
    code = (
        "import json,sys\n"
        "from py_ecc import bls\n"
        "C=getattr(bls,%r)\n"
        "cases=json.loads(sys.stdin.read())\n"
        "out=[]\n"
        "for kb,e in cases:\n"
        "    k=bytes.fromhex(kb); sig=bytes.fromhex(%r); pop=bytes.fromhex(%r); m=bytes.fromhex(%r)\n"
        "    try:\n"
        "        v={'KeyValidate':lambda:C.KeyValidate(k),'Verify':lambda:C.Verify(k,m,sig),'AggregateVerify':lambda:C.AggregateVerify([k],[m],sig),\n"
        "           'FastAggregateVerify':lambda:C.FastAggregateVerify([k],m,sig),'PopVerify':lambda:C.PopVerify(k,pop)}[e]()\n"
        "        out.append(v if v is True or v is False else 'non-bool')\n"
        "    except Exception as ex:\n"
        "        out.append('raise '+type(ex).__name__)\n"
        "print(json.dumps(out))\n" % (MB.CLASS[suite], sig.hex(), pop.hex(), MSGS[0].hex()))
    env = dict(os.environ)
    env.pop("PYTHONOPTIMIZE", None)
    p = subprocess.run([sys.executable, "-O", "-c", code], input=json.dumps([[kb.hex(), e] for _l, kb, e in cases]),
                       capture_output=True, text=True, env=env, timeout=1800)
    if p.returncode != 0:
        raise RuntimeError("python -O run failed: " + p.stderr[-800:])
    return json.loads(p.stdout.strip().splitlines()[-1])


def task_dash_o(a, env):
    suite = a["suite"]
    r = R("interpreter-started-with-O:%s" % suite)
    cases = dash_o_cases(suite)
    got = dash_o_run(suite)
    for (kl, kb, e), g in zip(cases, got):
        exp = kl == "valid"
        r.ev += 1
        r.dk.add((kl, e))
        if g is not exp:
            r.viol("C04:%s:%s:python-O:%s" % (suite, e, "accepts-invalid" if g is True else "rejects-valid" if g is False else "raises"),
                   ME + ":replay_dash_o", {"suite": suite, "key": kl, "entry": e}, exp, g, note="%s, key: %s" % (e, kl))
    r.sample({"interpreter": "python -O", "keys": ["valid", "identity", "T_11", "sk*G + T", "x not on curve"]})
    return r


def replay_dash_o(a):
    cases = dash_o_cases(a["suite"])
    got = dash_o_run(a["suite"])
    for (kl, kb, e), g in zip(cases, got):
        if kl == a["key"] and e == a["entry"] and g is not (kl == "valid"):
            return {"expected": kl == "valid", "observed": g}
    return None


def _resolve(a, env):
    thorough = a["tier"] == "thorough"
    suite, entry = a["suite"], a["entry"]
    ka = key_alphabet(env, thorough)
    if entry == "KeyValidate":
        return (ka[a["ki"]][1],), ka[a["ki"]][0]
    if entry in ("Verify", "PopVerify"):
        if entry == "PopVerify":
            sa = pop_alphabet(env, thorough)
        else:
            sa = sig_alphabet(env, thorough, suite, a["mi"])
        pk, sig = ka[a["ki"]][1], sa[a["si"]][1]
        lbl = "key[%s] sig[%s]" % (ka[a["ki"]][0], sa[a["si"]][0])
        return ((pk, a["mi"], sig) if entry == "Verify" else (pk, sig)), lbl
    if entry in ("AggregateVerify:cancelling-keys", "FastAggregateVerify:cancelling-keys"):
        sa = sig_alphabet(env, thorough, "basic", 0)
        return (sa[a["si"]][1],), "cancelling-keys sig[%s]" % sa[a["si"]][0]
    if entry == "FastAggregateVerify:cancelling-torsion":
        return (a["which"],), "cancelling-torsion[%s]" % a["which"]
    # aggregate entry points: list of n, bad item at position pos
    n, pos = a["n"], a["pos"]
    pks = [MB.sk_to_pk(SK[i]) for i in range(n)]
    if entry == "AggregateVerify":
        mis = list(range(n))
        sig = MB.aggregate([MB.sign(suite, SK[i], MSGS[i]) for i in range(n)])
    else:
        mis = 0
        sig = MB.aggregate([MB.sign(suite, SK[i], MSGS[0]) for i in range(n)])
    lbl = "honest"
    if a.get("append") is not None and n < len(MSGS):
        # an extra (bad key, fresh message) pair after an otherwise honest claim
        pks = pks + [ka[a["append"]][1]]
        if entry == "AggregateVerify":
            mis = mis + [n]
        lbl = "appended-key[%s]" % ka[a["append"]][0]
    elif a.get("ki") is not None:
        pks[pos] = ka[a["ki"]][1]
        lbl = "key[%d/%d][%s]" % (pos, n, ka[a["ki"]][0])
    if a.get("si") is not None:
        sa = sig_alphabet(env, thorough, "basic", 0)
        sig = sa[a["si"]][1]
        lbl += " sig[%s]" % sa[a["si"]][0]
    return (pks, mis, sig), lbl


def pop_alphabet(env, thorough):
    base = sig_alphabet(env, thorough, "basic", 0)
    return [("valid", MB.pop_prove(SK[0]))] + base[1:]


def task_calls(a, env):
    r = R("%s:%s" % (a["entry"], a["suite"]))
    for c in a["calls"]:
        full = dict(c, suite=a["suite"], entry=a["entry"], tier=env["tier"], seed=env["seed"])
        args, lbl = _resolve(full, env)
        _judge(r, a["suite"], a["entry"], lbl.replace("key[", "").replace("sig[", ""), args, full)
        r.dk.add(tuple(sorted((k, v) for k, v in c.items() if v is not None)))
    if a.get("sample") and a["calls"]:
        full = dict(a["calls"][0], suite=a["suite"], entry=a["entry"], tier=env["tier"], seed=env["seed"])
        r.sample({"entry": a["entry"], "suite": a["suite"], "call": _resolve(full, env)[1]})
    return r


def replay(a):
    env = {"seed": a["seed"], "pid": "C04", "tier": a["tier"]}
    args, lbl = _resolve(a, env)
    exp, got, events = run_call(a["suite"], a["entry"], args)
    if got == exp and not events:
        return None
    return {"call": lbl, "expected": exp, "observed": got, "monitor": events}


def run(ctx):
    ctx.rule = ("one case per call (entry point, suite, key string, message, signature string); default "
                "= valid key and signature; all single deviations over the alphabets, a set of double "
                "deviations, a bad item in every list position; distinct = distinct call descriptors")
    ctx.assumptions = ["inputs are `bytes` objects (the statement says byte strings); messages are bytes",
                       "a 96-byte string of the alphabet other than the model signature is not a valid "
                       "signature under any of the alphabet's keys (uniqueness)"]
    thorough = not ctx.quick
    ka = key_alphabet(ctx.env, thorough)
    sa = sig_alphabet(ctx.env, thorough)
    nk, ns = len(ka), len(sa)
    ctx.bounds = {"key_strings": nk, "signature_strings": ns, "deviation_bound": "1 (+ selected 2)",
                  "list_lengths": [1, 2, 3], "suites": 3}
    plan = []  # (suite, entry, call)
    # representative subsets for the expensive entry points (one of each label class)
    def reps(alpha, every):
        seen, out = set(), []
        for i, (l, _b) in enumerate(alpha):
            c = l.split(":")[0] if not l.startswith("flags") else l.split(":")[1] + l[6:9]
            if l.startswith("len"):
                c = l
            if c not in seen or i % every == 0:
                seen.add(c)
                out.append(i)
        return out
    kreps = reps(ka, 7) if ctx.quick else list(range(nk))
    sreps = reps(sa, 11) if ctx.quick else list(range(ns))
    # suites other than basic: every 3rd key string / every 6th signature string in quick
    kother = list(range(0, nk, 3)) if ctx.quick else list(range(nk))
    sother = list(range(0, ns, 6)) if ctx.quick else list(range(ns))

    def pick(alpha, labels):
        idx = []
        for want in labels:
            for i, (l, _b) in enumerate(alpha):
                if l == want or (want.endswith("*") and l.startswith(want[:-1])):
                    idx.append(i)
                    break
        return idx
    # the aggregate entry points cost ~1 s per call: one string per rejection cause in quick
    kagg = pick(ka, ["leading-00x1", "truncated", "len49:valid-resized", "flags=110:x=0", "flags=100:x=non-subgroup",
                     "flags=100:x=off-curve", "flags=000:x=subgroup", "point:G+T_11"]) if ctx.quick else kreps[1:]
    sagg = pick(sa, ["leading-00x1", "truncated", "flags=110:x1=0:x0=0", "flags=100:x1=1:x0=non-subgroup",
                     "flags=100:x1=subgroup:x0:flag-a", "point:S+T_13"]) if ctx.quick else sreps[1:]
    kapp = pick(ka, ["flags=110:x=0", "flags=100:x=non-subgroup", "point:T_3", "point:G+T_11", "flags=111:x=0"])
    sident = [i for i, (l, _b) in enumerate(sa) if ":x1=0:" in l and ("x0=0" in l or "only-flag" in l)] + \
        pick(sa, ["point:identity", "valid", "len96:zeros"])
    for suite in BL.SUITES:
        for ki in range(nk):
            plan.append((suite, "KeyValidate", {"ki": ki}))
        for ki in (range(nk) if suite == "basic" or thorough else kother):
            plan.append((suite, "Verify", {"ki": ki, "si": 0, "mi": 0}))
        for si in (range(ns) if suite == "basic" or thorough else sother):
            plan.append((suite, "Verify", {"ki": 0, "si": si, "mi": 0}))
        for ki in (kreps[1::6] if ctx.quick else kreps[1::3]):
            for si in (sreps[1::12] if ctx.quick else sreps[1::5]):
                plan.append((suite, "Verify", {"ki": ki, "si": si, "mi": 0}))
        plan.append((suite, "Verify", {"ki": 0, "si": 0, "mi": 2}))
        plan.append((suite, "Verify", {"ki": 3, "si": 0, "mi": 2}))
        for n in (1, 2, 3):
            plan.append((suite, "AggregateVerify", {"n": n, "pos": 0, "ki": None, "si": None}))
            for pos in range(n):
                for ki in kagg:
                    plan.append((suite, "AggregateVerify", {"n": n, "pos": pos, "ki": ki, "si": None}))
            for si in sagg:
                plan.append((suite, "AggregateVerify", {"n": n, "pos": 0, "ki": None, "si": si}))
            if n < 3:
                for ki in kapp:
                    plan.append((suite, "AggregateVerify", {"n": n, "pos": 0, "ki": None, "si": None, "append": ki}))
        for si in sident:
            plan.append((suite, "AggregateVerify:cancelling-keys", {"si": si}))
    for n in (1, 2):
        for ki in kapp:
            plan.append(("pop", "FastAggregateVerify", {"n": n, "pos": 0, "ki": None, "si": None, "append": ki}))
    for si in pick(sa, ["valid", "point:identity", "flags=110:x1=0:x0=only-flag-c", "len96:zeros", "point:-S", "seeded"]):
        plan.append(("pop", "FastAggregateVerify:cancelling-keys", {"si": si}))
    for which in ("T_3", "T_11", "cofactor-component"):
        plan.append(("pop", "FastAggregateVerify:cancelling-torsion", {"which": which}))
    for ki in kreps:
        plan.append(("pop", "PopVerify", {"ki": ki, "si": 0, "mi": 0}))
    for si in sreps:
        plan.append(("pop", "PopVerify", {"ki": 0, "si": si, "mi": 0}))
    for n in (1, 2, 3):
        plan.append(("pop", "FastAggregateVerify", {"n": n, "pos": 0, "ki": None, "si": None}))
        for pos in range(n):
            for ki in kagg:
                plan.append(("pop", "FastAggregateVerify", {"n": n, "pos": pos, "ki": ki, "si": None}))
        for si in sagg:
            plan.append(("pop", "FastAggregateVerify", {"n": n, "pos": 0, "ki": None, "si": si}))
    groups = {}
    for suite, entry, call in plan:
        groups.setdefault((suite, entry), []).append(call)
    tasks = []
    for (suite, entry), calls in groups.items():
        per = 40 if entry in ("KeyValidate",) else (6 if entry in ("AggregateVerify", "FastAggregateVerify") else 24)
        if entry == "AggregateVerify:cancelling-keys":
            per = 12
        if entry.startswith("FastAggregateVerify:"):
            per = 3
        for i in range(0, len(calls), per):
            tasks.append(("calls", {"suite": suite, "entry": entry, "calls": calls[i:i + per], "sample": i == 0}))
    ctx.bounds["calls"] = len(plan)
    # expensive (aggregate) tasks first
    tasks.sort(key=lambda t: 0 if "Aggregate" in t[1]["entry"] else 1)
    for s_ in BL.SUITES:
        tasks.append(("fedback", {"suite": s_}))
        tasks.append(("dash_o", {"suite": s_}))
    ctx.pmap(ME, tasks)

"""C07 - curve operations form the standard abelian group in all four curve modules.

I1: every curve y^2 = x^3 + b over tiny fields, all points, all pairs, all projective
    representatives, all scalars: the real add/double/neg/eq/multiply/... bodies are called
    on small-field instances and compared with the affine model (mc.model.ec).
I2: the shipped 254/381-bit configuration over explicit point / scalar alphabets,
    reference vs optimized vs model, constants vs derived parameters, twist.
"""
import importlib
import itertools

from ..core import R, rng
from .. import lib
from ..model import ec, zp

LEVEL = "model_checking"
ME = "mc.props.C07"

OPT = {"optimized_bn128": "py_ecc.optimized_bn128.optimized_curve",
       "optimized_bls12_381": "py_ecc.optimized_bls12_381.optimized_curve"}
REF = {"bn128": "py_ecc.bn128.bn128_curve", "bls12_381": "py_ecc.bls12_381.bls12_381_curve"}


def curve_mod(name):
    return importlib.import_module(OPT.get(name) or REF[name])


def family_of(name):
    return "opt" if name in OPT else "ref"


# ---------------------------------------------------------------- encodings for replay
def enc_el(cfg, x):
    """library element -> JSON (raw stored ints)"""
    return list(lib.raw_coeffs(x))


def dec_el(cfg, v):
    if cfg.mc is None:
        return cfg.cls(v[0])
    return cfg.cls(list(v))


def enc_pt(cfg, P):
    return None if P is None else [enc_el(cfg, c) for c in P]


def dec_pt(cfg, v):
    return None if v is None else tuple(dec_el(cfg, c) for c in v)


def mk_cfg(a):
    return lib.Cfg(family_of(a["mod"]), a["p"], a.get("mc"))


def norm(cfg, fam, P):
    return lib.opt_norm(cfg, P) if fam == "opt" else lib.ref_norm(cfg, P)


# ---------------------------------------------------------------- one case (also the replay)
def eval_case(cfg, fam, M, E, b_lib, op, P, Q=None, n=None):
    """Run one operation of curve module M on library points and compare with the model.
    Returns None if they agree, else (expected, observed)."""
    Pa = norm(cfg, fam, P)
    if op == "add":
        exp = ("ok", E.add(Pa, norm(cfg, fam, Q)))
        got = lib.outcome(M.add, P, Q)
        if got[0] == "ok":
            got = ("ok", norm(cfg, fam, got[1]))
    elif op == "double":
        exp = ("ok", E.add(Pa, Pa))
        got = lib.outcome(M.double, P)
        if got[0] == "ok":
            got = ("ok", norm(cfg, fam, got[1]))
    elif op == "neg":
        exp = ("ok", E.neg(Pa))
        got = lib.outcome(M.neg, P)
        if got[0] == "ok":
            got = ("ok", norm(cfg, fam, got[1]))
    elif op == "multiply":
        exp = ("ok", E.mul(Pa, n))
        got = lib.outcome(M.multiply, P, n)
        if got[0] == "ok":
            got = ("ok", norm(cfg, fam, got[1]))
    elif op == "eq":
        exp = ("ok", Pa == norm(cfg, fam, Q))
        got = lib.outcome(M.eq, P, Q)
        if got[0] == "ok" and got[1] is not True and got[1] is not False:
            got = ("ok", bool(got[1]))
    elif op == "is_inf":
        exp = ("ok", Pa is None)
        got = lib.outcome(M.is_inf, P)
    elif op == "is_on_curve":
        exp = ("ok", E.on_curve(Pa))
        got = lib.outcome(M.is_on_curve, P, b_lib)
    elif op == "normalize":
        exp = ("ok", Pa)
        got = lib.outcome(M.normalize, P)
        if got[0] == "ok":
            got = ("ok", (cfg.mod(got[1][0]), cfg.mod(got[1][1])))
    else:
        raise ValueError(op)
    if exp == got:
        return None
    return (exp, got)


def replay_curve_op(a):
    cfg = mk_cfg(a)
    fam = family_of(a["mod"])
    M = curve_mod(a["mod"])
    E = ec.Curve(cfg.F, 0, a["b"] if cfg.mc is None else tuple(a["b"]))
    b_lib = cfg.lib(E.b)
    out = eval_case(cfg, fam, M, E, b_lib, a["op"], dec_pt(cfg, a["P"]),
                    dec_pt(cfg, a.get("Q")), a.get("n"))
    if out is None:
        return None
    return {"expected": out[0], "observed": out[1]}


def _key(mod, op, Pa, Qa=None, extra=""):
    """Stable violation key: module, operation and the *shape* of the operands."""
    def shp(X):
        return "inf" if X is None else "pt"
    rel = ""
    if Qa is not None or op in ("add", "eq"):
        if Pa is not None and Qa is not None:
            rel = ":same" if Pa == Qa else (":opposite" if Pa[0] == Qa[0] else ":generic")
        return "C07:%s:%s:%s,%s%s%s" % (mod, op, shp(Pa), shp(Qa), rel, extra)
    return "C07:%s:%s:%s%s" % (mod, op, shp(Pa), extra)


def _report(r, cfg, fam, a, op, P, Q, n, out, E, zero_triple=False):
    Pa = norm(cfg, fam, P)
    Qa = norm(cfg, fam, Q) if Q is not None or op in ("add", "eq") and fam == "ref" else None
    extra = ":zero-triple" if zero_triple else ""
    args = {"mod": a["mod"], "p": a["p"], "mc": a.get("mc"), "b": a["b"], "op": op,
            "P": enc_pt(cfg, P), "Q": enc_pt(cfg, Q), "n": n}
    chk = replay_curve_op(args)
    if chk is None:
        raise RuntimeError("replay function disagrees with explorer on %r" % (args,))
    r.viol(_key(a["mod"], op, Pa, Qa if (Q is not None or op in ("add", "eq")) else None, extra),
           ME + ":replay_curve_op", args, out[0], out[1])


def _is_zero_triple(cfg, P):
    return P is not None and len(P) == 3 and all(cfg.F.is_zero(cfg.mod(c)) for c in P)


# ---------------------------------------------------------------- tiny curves, optimized modules
def task_tiny_opt(a, env):
    """One curve, one optimized module: all pairs x all representatives, all scalars."""
    r = R("tiny:%s" % a["mod"])
    cfg = mk_cfg(a)
    F = cfg.F
    M = curve_mod(a["mod"])
    b = a["b"] if cfg.mc is None else tuple(a["b"])
    E = ec.Curve(F, 0, b)
    b_lib = cfg.lib(E.b)
    pts = E.points()
    order = len(pts) + 1
    if a.get("lams") == "all":
        lams = [l for l in F.elems() if not F.is_zero(l)]
    else:
        lams = [F.el(l) if isinstance(l, int) else tuple(l) for l in a["lams"]]
    one, zero = F.one, F.zero
    # representatives of infinity: the module's own Z, other (x, y, 0), and whatever the
    # library itself produces (collected below and fed back in, closure to depth 3)
    inf_model = [(one, one, zero), (zero, one, zero), (one, zero, zero), (F.el(2), F.el(3), zero)]
    infs = [tuple(cfg.lib(c) for c in t) for t in inf_model]
    seen_inf = set(inf_model)

    def note_inf(res):
        try:
            t = tuple(cfg.mod(c) for c in res)
        except Exception:
            return
        if F.is_zero(t[2]) and t not in seen_inf:
            seen_inf.add(t)
            new_infs.append(tuple(cfg.lib(c) for c in t))

    new_infs = []
    reps = {}  # model point -> list of library representatives
    for P in pts:
        reps[P] = [lib.opt_pt(cfg, P, l) for l in lams]
    r.states += order
    r.sample({"mod": a["mod"], "field": cfg.name(), "b": b, "order": order, "scalings": len(lams),
              "case": "add(P,Q) for all %d^2 pairs x %d^2 representatives" % (order, len(lams))})

    add, double, neg, eq_, is_inf, is_on, normalize, multiply = (
        M.add, M.double, M.neg, M.eq, M.is_inf, M.is_on_curve, M.normalize, M.multiply)
    mod = cfg.mod
    inv = F.inv
    mul = F.mul
    is_zero = F.is_zero

    def nrm(res):
        x, y, z = mod(res[0]), mod(res[1]), mod(res[2])
        if is_zero(z):
            return None
        iz = inv(z)
        return (mul(x, iz), mul(y, iz))

    # --- binary ops on finite points, every representative pair
    for Pa in pts:
        for Qa in pts:
            exp = E.add(Pa, Qa)
            same = Pa == Qa
            for P in reps[Pa]:
                for Q in reps[Qa]:
                    r.ev += 2
                    r.transitions += 1
                    try:
                        res = add(P, Q)
                        got = nrm(res)
                        if got is None:
                            note_inf(res)
                        ok = got == exp
                        e = eq_(P, Q)
                        ok2 = (e is True or e is False) and e == same
                    except Exception:
                        ok = ok2 = False
                    if not ok:
                        _report(r, cfg, "opt", a, "add", P, Q, None,
                                eval_case(cfg, "opt", M, E, b_lib, "add", P, Q), E)
                    if not ok2:
                        _report(r, cfg, "opt", a, "eq", P, Q, None,
                                eval_case(cfg, "opt", M, E, b_lib, "eq", P, Q), E)
            r.dn += len(lams) ** 2
    # --- unary ops on every representative
    for Pa in pts:
        for P in reps[Pa]:
            for op in ("double", "neg", "is_inf", "is_on_curve", "normalize"):
                r.ev += 1
                r.transitions += 1
                out = eval_case(cfg, "opt", M, E, b_lib, op, P)
                if out is not None:
                    _report(r, cfg, "opt", a, op, P, None, None, out, E)
            try:
                note_inf(double(P))
            except Exception:
                pass
        r.dn += len(lams)
    # --- scalar multiplication: every point, every n in [0, 2*order+2], two representatives
    big = [order * 1000 + 1, order * 1000 + 7, 2 ** 64 + 5, (2 ** 64 + 5) * order + 3]
    g = rng(env, "tinymul")
    big.append(g.getrandbits(640) | (1 << 639))
    big += [2 ** 61 - 1 + 1, 2 ** 61 - 1 + 2, 3 + 7 * (2 ** 61 - 1)]  # equal hash() as 1, 2, 3
    ns_small = list(range(0, 2 * order + 3))
    for ip, Pa in enumerate(pts):
        # large scalars: every point over prime fields; the first two points over extensions
        ns = ns_small + (big if cfg.mc is None or ip < 2 else [])
        for P in (reps[Pa][0], reps[Pa][-1]):
            for n in ns:
                r.ev += 1
                r.transitions += 1
                exp = E.mul(Pa, n)
                try:
                    res = multiply(P, n)
                    got = nrm(res)
                    if got is None:
                        note_inf(res)
                    ok = got == exp
                except Exception:
                    ok = False
                if not ok:
                    _report(r, cfg, "opt", a, "multiply", P, None, n,
                            eval_case(cfg, "opt", M, E, b_lib, "multiply", P, None, n), E)
            r.dn += len(ns)
    # --- infinity representatives (given + produced by the library), closure to depth 3
    depth = 0
    frontier = infs[:] + new_infs
    new_infs = []
    all_infs = []
    while frontier and depth < 3:
        depth += 1
        all_infs.extend(frontier)
        cur, frontier = frontier, []
        for Z in cur:
            zt = _is_zero_triple(cfg, Z)
            for op in ("double", "neg", "is_inf", "is_on_curve"):
                r.ev += 1
                out = eval_case(cfg, "opt", M, E, b_lib, op, Z)
                if out is not None:
                    _report(r, cfg, "opt", a, op, Z, None, None, out, E, zt)
            for n in (0, 1, 2, 3, 4, 5, order, 2 ** 70 + 1):
                r.ev += 1
                out = eval_case(cfg, "opt", M, E, b_lib, "multiply", Z, None, n)
                if out is not None:
                    _report(r, cfg, "opt", a, "multiply", Z, None, n, out, E, zt)
            for fn in (double, neg):
                try:
                    note_inf(fn(Z))
                except Exception:
                    pass
            for n in (2, 3, 4, 5):
                try:
                    note_inf(multiply(Z, n))
                except Exception:
                    pass
            for Qa in pts:
                for Q in (reps[Qa][0], reps[Qa][-1]):
                    for (X, Y) in ((Z, Q), (Q, Z)):
                        for op in ("add", "eq"):
                            r.ev += 1
                            r.transitions += 1
                            out = eval_case(cfg, "opt", M, E, b_lib, op, X, Y)
                            if out is not None:
                                _report(r, cfg, "opt", a, op, X, Y, None, out, E, zt)
            for Z2 in all_infs:
                for op in ("add", "eq"):
                    r.ev += 1
                    out = eval_case(cfg, "opt", M, E, b_lib, op, Z, Z2)
                    if out is not None:
                        _report(r, cfg, "opt", a, op, Z, Z2, None, out, E,
                                zt or _is_zero_triple(cfg, Z2))
            r.dn += 1
        frontier = new_infs
        new_infs = []
    r.notes["infinity_representatives_seen"] = len(seen_inf)
    return r


# ---------------------------------------------------------------- tiny curves, reference modules
def task_tiny_ref(a, env):
    r = R("tiny:%s" % a["mod"])
    cfg = mk_cfg(a)
    F = cfg.F
    M = curve_mod(a["mod"])
    b = a["b"] if cfg.mc is None else tuple(a["b"])
    E = ec.Curve(F, 0, b)
    b_lib = cfg.lib(E.b)
    mpts = [None] + E.points()
    order = len(mpts)
    assert order % 2 == 1, "reference modules: odd-order curves only (C07 statement)"
    r.states += order
    r.sample({"mod": a["mod"], "field": cfg.name(), "b": b, "order": order,
              "case": "all pairs, all n in [0, 2*order+2]"})
    L = {P: lib.ref_pt(cfg, P) for P in mpts}
    for Pa in mpts:
        P = L[Pa]
        for op in ("double", "neg", "is_inf", "is_on_curve"):
            r.ev += 1
            r.transitions += 1
            out = eval_case(cfg, "ref", M, E, b_lib, op, P)
            if out is not None:
                _report(r, cfg, "ref", a, op, P, None, None, out, E)
        for Qa in mpts:
            # fresh objects for Q so that `is`-shortcuts cannot mask value comparison
            Q = lib.ref_pt(cfg, Qa)
            for op in ("add", "eq"):
                r.ev += 1
                r.transitions += 1
                out = eval_case(cfg, "ref", M, E, b_lib, op, P, Q)
                if out is not None:
                    _report(r, cfg, "ref", a, op, P, Q, None, out, E)
            if Pa is not None and Qa is not None:
                r.dn += 1
        g = rng(env, "tinymul")
        ns = list(range(0, 2 * order + 3))
        if cfg.mc is None or mpts.index(Pa) < 3:
            ns += [order * 1000 + 1, 2 ** 64 + 5, g.getrandbits(640) | (1 << 639)]
        for n in ns:
            r.ev += 1
            r.transitions += 1
            out = eval_case(cfg, "ref", M, E, b_lib, "multiply", P, None, n)
            if out is not None:
                _report(r, cfg, "ref", a, "multiply", P, None, n, out, E)
        r.dn += len(ns)
    return r


# ---------------------------------------------------------------- direct axioms on triples
def task_tiny_axioms(a, env):
    """Associativity / commutativity / inverse / double asserted directly with the
    library's own eq on all triples of a tiny curve (p <= 7)."""
    r = R("tiny-axioms:%s" % a["mod"])
    cfg = mk_cfg(a)
    fam = family_of(a["mod"])
    M = curve_mod(a["mod"])
    b = a["b"] if cfg.mc is None else tuple(a["b"])
    E = ec.Curve(cfg.F, 0, b)
    mpts = [None] + E.points()
    if fam == "ref" and len(mpts) % 2 == 0:
        return r
    if fam == "opt":
        Z = tuple(cfg.lib(c) for c in (cfg.F.one, cfg.F.one, cfg.F.zero))
        L = [Z] + [lib.opt_pt(cfg, P, cfg.F.el(2)) for P in mpts[1:]]
    else:
        L = [lib.ref_pt(cfg, P) for P in mpts]
    r.states += len(L)
    for i, P in enumerate(L):
        for j, Q in enumerate(L):
            try:
                PQ = M.add(P, Q)
                ok = M.eq(PQ, M.add(Q, P))
                if i == j:
                    ok = ok and M.eq(PQ, M.double(P))
            except Exception:
                ok = False
            r.ev += 1
            if not ok:
                r.viol("C07:%s:axiom:commutative" % a["mod"], ME + ":replay_axiom",
                       {"mod": a["mod"], "p": a["p"], "mc": a.get("mc"), "b": a["b"],
                        "P": enc_pt(cfg, P), "Q": enc_pt(cfg, Q), "T": None},
                       "P+Q == Q+P (and == double(P) when P is Q)", "not equal")
                continue
            for T in L:
                r.ev += 1
                r.transitions += 1
                try:
                    ok = M.eq(M.add(PQ, T), M.add(P, M.add(Q, T)))
                except Exception:
                    ok = False
                if not ok:
                    r.viol("C07:%s:axiom:associative" % a["mod"], ME + ":replay_axiom",
                           {"mod": a["mod"], "p": a["p"], "mc": a.get("mc"), "b": a["b"],
                            "P": enc_pt(cfg, P), "Q": enc_pt(cfg, Q), "T": enc_pt(cfg, T)},
                           "(P+Q)+T == P+(Q+T)", "not equal")
        try:
            ok = M.is_inf(M.add(P, M.neg(P)))
        except Exception:
            ok = False
        if not ok:
            r.viol("C07:%s:axiom:inverse" % a["mod"], ME + ":replay_axiom",
                   {"mod": a["mod"], "p": a["p"], "mc": a.get("mc"), "b": a["b"],
                    "P": enc_pt(cfg, P), "Q": None, "T": None}, "P + (-P) is infinity", "not")
    r.dn += len(L) ** 3
    r.sample({"mod": a["mod"], "field": cfg.name(), "b": b, "triples": len(L) ** 3})
    return r


def replay_axiom(a):
    cfg = mk_cfg(a)
    M = curve_mod(a["mod"])
    P, Q, T = dec_pt(cfg, a["P"]), dec_pt(cfg, a.get("Q")), dec_pt(cfg, a.get("T"))
    try:
        if a.get("Q") is None and a.get("T") is None and not (family_of(a["mod"]) == "ref"):
            if not M.is_inf(M.add(P, M.neg(P))):
                return {"observed": "P + (-P) is not infinity"}
            return None
        if a.get("T") is None:
            if not M.eq(M.add(P, Q), M.add(Q, P)):
                return {"observed": "P+Q != Q+P"}
            if a["P"] == a["Q"] and not M.eq(M.add(P, Q), M.double(P)):
                return {"observed": "P+P != double(P)"}
            if a.get("Q") is None and not M.is_inf(M.add(P, M.neg(P))):
                return {"observed": "P + (-P) is not infinity"}
            return None
        if not M.eq(M.add(M.add(P, Q), T), M.add(P, M.add(Q, T))):
            return {"observed": "(P+Q)+T != P+(Q+T)"}
    except Exception as e:  # noqa: BLE001
        return {"observed": "raise " + type(e).__name__}
    return None


# ---------------------------------------------------------------- plan
def small_curves(p_list):
    """(p, b, order) for every curve y^2 = x^3 + b, b != 0, over GF(p)."""
    out = []
    for p in p_list:
        F = zp.Fp(p)
        for b in range(1, p):
            E = ec.Curve(F, 0, b)
            out.append((p, b, len(E.points()) + 1))
    return out


def quad_modulus(p):
    """The first irreducible x^2 + m0 (m1 = 0) and the first with m1 != 0."""
    res = []
    for m1 in (0, 1):
        for m0 in range(1, p):
            if zp.is_irreducible(p, (m0, m1)):
                res.append((m0, m1))
                break
    return res


def run(ctx):
    from . import C07_full

    ctx.rule = (
        "tiny curves: every curve y^2=x^3+b (b!=0) over the listed fields; every ordered pair of "
        "points incl. infinity; optimized modules in every projective representative "
        "(lambda*x, lambda*y, lambda), every scalar n in [0, 2*#E+2] plus large ones; a case is "
        "non-trivial when all point operands are finite; full size: complete cross products of "
        "the point / scalar alphabets listed under bounds. Cases are enumerated without "
        "repetition, so distinct == enumerated."
    )
    ctx.assumptions = [
        "reference model mc.model.ec / mc.model.zp (self-checked exhaustively at start)",
        "small-field verdicts transfer because add/double/neg/eq/multiply/is_on_curve never read "
        "module constants (DESIGN 5.3); the full-size alphabets cover magnitude-dependent behaviour",
    ]
    zp.selfcheck()
    ec.selfcheck()
    tasks = []
    primes = [5, 7, 11, 13] if ctx.quick else [5, 7, 11, 13, 17, 19, 23]
    curves = small_curves(primes)
    ctx.bounds["tiny_prime_fields"] = primes
    ctx.bounds["tiny_curves_over_prime_fields"] = len(curves)
    for (p, b, order) in curves:
        for m in OPT:
            tasks.append(("tiny_opt", {"mod": m, "p": p, "b": b, "lams": "all"}))
        if order % 2 == 1:
            for m in REF:
                tasks.append(("tiny_ref", {"mod": m, "p": p, "b": b}))
        if p <= 7:
            for m in list(OPT) + list(REF):
                tasks.append(("tiny_axioms", {"mod": m, "p": p, "b": b}))
    # quadratic extensions: curves chosen for distinct group orders, odd orders first
    qp = [5, 7]
    nq = 0
    for p in qp:
        for mc in quad_modulus(p):
            F = zp.Fpk(p, mc)
            by_order = {}
            for b in F.elems():
                if F.is_zero(b):
                    continue
                order = len(ec.Curve(F, 0, b).points()) + 1
                by_order.setdefault(order, []).append(b)
            orders = sorted(by_order, key=lambda o: (o % 2 == 0, o))
            if ctx.quick:
                orders = orders[:3] if p == 5 else orders[:1]
                chosen = [(o, by_order[o][0]) for o in orders]
            else:
                chosen = [(o, b) for o in orders for b in by_order[o][: (4 if p == 5 else 2)]]
            for order, b in chosen:
                nq += 1
                lams = [[1, 0], [0, 1], [1, 1], [2, 0]] if ctx.quick or p == 7 else "all"
                for m in OPT:
                    tasks.append(("tiny_opt", {"mod": m, "p": p, "mc": list(mc), "b": list(b),
                                               "lams": lams}))
                if order % 2 == 1:
                    for m in REF:
                        tasks.append(("tiny_ref", {"mod": m, "p": p, "mc": list(mc), "b": list(b)}))
    ctx.bounds["tiny_curves_over_quadratic_fields"] = nq
    # the long full-size tasks first (better packing on 16 workers)
    tasks = C07_full.plan(ctx) + tasks
    tasks += C07_tiny_twist.plan(ctx)
    ctx.pmap(ME, tasks)


# full-size tasks live in C07_full but are dispatched through this module's namespace
from . import C07_tiny_twist  # noqa: E402
from .C07_tiny_twist import task_tiny_twist  # noqa: E402,F401
from .C07_full import task_full_pairs, task_full_mul, task_full_consts, task_full_twist, task_full_bfs, task_containers  # noqa: E402,F401

"""C14 - optimized field classes compute the same values as the reference field classes.

Tiny fields: complete operator tables of both families compared entry by entry (so, by
induction over table edges, every straight-line program of any depth agrees).  Full size:
breadth-first closure by value from a leaf alphabet, every transition executed in both
families in lock-step.  sgn0 vs the RFC 9380 section 4.1 loop on every element.
"""
import itertools

from ..core import R, rng
from .. import lib
from ..model import zp
from . import fieldlib as fl
from .C08 import elements, full_cfgs

LEVEL = "model_checking"
ME = "mc.props.C14"

BAD_OPERANDS = [("float", 1.5), ("str", "1"), ("none", None), ("bytes", b"\x01"), ("list", [1])]


def fam_outcome(o):
    """outcome normalised for cross-family comparison: exception *types* may differ between
    the families, acceptance may not"""
    return ("raise",) if o[0] == "raise" else o


def kindname(cfg):
    return "FQ" if cfg.mc is None else "FQ%d" % len(cfg.mc)


CTOR_FORMS = ["fq-objects", "tuple+p", "tuple-p", "list+5p", "tuple-mixed", "tuple-of-int-subclass"]


def fqform_case(cr, co, xm, partner, form="fq-objects"):
    """[(op, (expected, observed))] mismatches for the element xm built through another constructor form:
    FQ-object coefficients, tuples / lists of unreduced or negative ints, int-subclass coefficients"""
    from .. import lib as _lib

    out = []
    p = cr.p
    els = {}
    for fam, cfg in (("ref", cr), ("opt", co)):
        FQc = _lib.fq_class(fam, p)
        try:
            if form == "fq-objects":
                els[fam] = cfg.cls([FQc(c) for c in xm])
            elif form == "tuple+p":
                els[fam] = cfg.cls(tuple(c + p for c in xm))
            elif form == "tuple-p":
                els[fam] = cfg.cls(tuple(c - p for c in xm))
            elif form == "list+5p":
                els[fam] = cfg.cls([c + 5 * p for c in xm])
            elif form == "tuple-mixed":
                els[fam] = cfg.cls(tuple((c - 3 * p) if i % 2 else (c + p * p) for i, c in enumerate(xm)))
            else:
                els[fam] = cfg.cls(tuple(fl.IntSub(c + p) for c in xm))
            if form != "fq-objects":
                raw = tuple(int(c) for c in els[fam].coeffs)
                if raw != tuple(xm):
                    out.append(("stored-coefficients:%s" % fam, (list(xm), list(raw)[:12])))
        except Exception as e:  # noqa: BLE001
            els[fam] = ("raise", type(e).__name__)
    if isinstance(els["ref"], tuple) or isinstance(els["opt"], tuple):
        if isinstance(els["ref"], tuple) != isinstance(els["opt"], tuple):
            out.append(("construct", (els["ref"] if isinstance(els["ref"], tuple) else "element",
                                      els["opt"] if isinstance(els["opt"], tuple) else "element")))
        return out
    exp_s = ("ok", fl.sgn0_rfc(co, xm))
    got_s = fl.run_op(co, "sgn0", els["opt"])
    if got_s != exp_s:
        out.append(("sgn0", (exp_s, got_s)))
    for op in ("neg", "inv"):
        exp = fl.model_op(cr, op, xm)
        for fam, cfg in (("ref", cr), ("opt", co)):
            got = fl.run_op(cfg, op, els[fam])
            if got != exp:
                out.append(("%s:%s" % (op, fam), (exp, got)))
    if partner is not None:
        exp = fl.model_op(cr, "mul", xm, partner)
        for fam, cfg in (("ref", cr), ("opt", co)):
            for (l, rr) in ((els[fam], cfg.lib(partner)), (cfg.lib(partner), els[fam])):
                got = fl.run_op(cfg, "mul", l, rr)
                if got != exp:
                    out.append(("mul:%s" % fam, (exp, got)))
    for fam, cfg in (("ref", cr), ("opt", co)):
        got = fl.run_op(cfg, "eq", els[fam], cfg.lib(xm))
        if got != ("ok", True):
            out.append(("eq:%s" % fam, (("ok", True), got)))
    return out


def iop_case(cr, co, xm, ym):
    """augmented assignment must behave like the binary operator and must not change the object the
    name was bound to before (no aliasing): y = x; y op= z  =>  y == x op z and x unchanged"""
    import operator as _o

    out = []
    for fam, cfg in (("ref", cr), ("opt", co)):
        for nm, f in (("iadd", _o.iadd), ("isub", _o.isub), ("imul", _o.imul), ("itruediv", _o.itruediv)):
            x = cfg.lib(xm)
            z = cfg.lib(ym)
            if fam == "opt":
                try:
                    _ = x.sgn0  # a memoised sign must not survive an in-place update
                except AttributeError:
                    pass
            alias = x
            try:
                alias = f(alias, z)
                got = fl.canon(cfg, alias)
            except Exception as e:  # noqa: BLE001
                got = ("raise", type(e).__name__)
            exp = fl.model_op(cfg, {"iadd": "add", "isub": "sub", "imul": "mul", "itruediv": "div"}[nm], xm, ym)
            if got != exp:
                out.append(("%s:%s" % (nm, fam), (exp, got)))
            keep = fl.canon(cfg, x)
            if keep != ("ok", xm):
                out.append(("%s:%s:operand-changed" % (nm, fam), (("ok", xm), keep)))
            keepz = fl.canon(cfg, z)
            if keepz != ("ok", ym):
                out.append(("%s:%s:right-operand-changed" % (nm, fam), (("ok", ym), keepz)))
    return out


def replay_iop(a):
    cr, co = fl.cfg_of(a, "ref"), fl.cfg_of(a, "opt")
    x = a["x"] if cr.mc is None else tuple(a["x"])
    y = a["y"] if cr.mc is None else tuple(a["y"])
    bad = iop_case(cr, co, x, y)
    return None if not bad else {"mismatches": [(op, e, g) for op, (e, g) in bad]}


def errpath_case(cr, co, xm, ym):
    """error paths must leave nothing behind: after a refused / failing operation the next product,
    inverse and power are the model's (both families)"""
    from .. import lib as _lib

    out = []
    for fam, cfg in (("ref", cr), ("opt", co)):
        m = _lib.fields_mod(fam)
        x, y = cfg.lib(xm), cfg.lib(ym)
        FQc = _lib.fq_class(fam, cfg.p)
        other = None
        try:  # an element of another extension degree over the same prime
            if cfg.mc is not None and len(cfg.mc) == 2:
                mc12 = fl.deg12_moduli(cfg.p)[0] if cfg.p in (2, 3, 5, 7) else None
                other = _lib.fq12_class(fam, cfg.p, mc12)([1] * 12) if mc12 else None
            elif cfg.mc is not None:
                other = _lib.fq2_class(fam, cfg.p, fl.quadratics(cfg.p)[0])([1, 1])
        except Exception:  # noqa: BLE001
            other = None
        bads = [("none-coefficient", lambda: x * cfg.cls([FQc(1)] + [None] * (len(cfg.mc) - 1)) if cfg.mc is not None else x * None),
                ("other-degree", lambda: x * other if other is not None else x * "s"),
                ("other-degree-reflected", lambda: other * x if other is not None else "s" * x),
                ("string", lambda: x * "1"), ("div-by-list", lambda: x / [1]), ("pow-float", lambda: x ** 1.5)]
        for lbl, thunk in bads:
            try:
                thunk()
            except Exception:  # noqa: BLE001
                pass
            for op, exp, got in (("mul", fl.model_op(cfg, "mul", xm, ym), fl.run_op(cfg, "mul", x, y)),
                                 ("mul-one", ("ok", xm), fl.run_op(cfg, "mul", x, cfg.cls.one())),
                                 ("inv", fl.model_op(cfg, "inv", xm), fl.run_op(cfg, "inv", x)),
                                 ("pow", fl.model_op(cfg, "pow", xm, 3), fl.run_op(cfg, "pow", x, 3))):
                if got != exp:
                    out.append(("%s:after-%s:%s" % (op, lbl, fam), (exp, got)))
    return out


def task_errpath_tables(a, env):
    """error-path histories on one tiny field (used by C08 as well)"""
    cr, co = fl.cfg_of(a, "ref"), fl.cfg_of(a, "opt")
    r = R("after-error-path:%s" % kindname(cr))
    F = cr.F
    els = [e for e in elements(cr, "structured:8", env) if not F.is_zero(e)][:6]
    for xm in els:
        for ym in els[:2]:
            for (op, bad_out) in errpath_case(cr, co, xm, ym):
                r.viol("C14:%s:after-error-path:%s" % (kindname(cr), op.split(":")[0]), ME + ":replay_errpath",
                       {"p": a["p"], "mc": a.get("mc"), "x": fl.el_json(cr, xm), "y": fl.el_json(cr, ym)},
                       bad_out[0], bad_out[1], note=op)
            r.ev += 48
            r.transitions += 48
            r.dk.add((xm, ym))
    r.states = len(els)
    r.sample({"field": fl.cfg_name(a), "history": "refused / failing operation, then mul, mul-by-one, inv, pow"})
    return r


def replay_errpath(a):
    cr, co = fl.cfg_of(a, "ref"), fl.cfg_of(a, "opt")
    x = a["x"] if cr.mc is None else tuple(a["x"])
    y = a["y"] if cr.mc is None else tuple(a["y"])
    bad = errpath_case(cr, co, x, y)
    return None if not bad else {"mismatches": [(op, e, g) for op, (e, g) in bad]}


def replay_fqform(a):
    cr, co = fl.cfg_of(a, "ref"), fl.cfg_of(a, "opt")
    bad = fqform_case(cr, co, tuple(a["x"]), tuple(a["y"]) if a.get("y") else None, a.get("form", "fq-objects"))
    return None if not bad else {"mismatches": [(op, e, g) for op, (e, g) in bad]}


def task_tables(a, env):
    cr, co = fl.cfg_of(a, "ref"), fl.cfg_of(a, "opt")
    p = cr.p
    F = cr.F
    q = F.q
    kind = kindname(cr)
    r = R("tables:%s" % kind)
    A = elements(cr, a.get("A", "all"), env)
    B = elements(cr, a.get("B", "all"), env)
    if a.get("Bmax"):
        B = B[: a["Bmax"] - 2] + B[-2:]
    if a.get("Amax") and len(A) > a["Amax"]:
        A = A[: a["Amax"] - 6] + A[-6:]
    LR = {v: cr.lib(v) for v in set(A) | set(B)}
    LO = {v: co.lib(v) for v in set(A) | set(B)}
    r.states += len(A)

    def bad(op, args, gr, go):
        r.viol("C14:%s:%s" % (kind, op), ME + ":replay_table",
               {"p": p, "mc": a.get("mc"), "op": op, "args": args}, gr, go)

    def cmp(op, xm, ym=None, yk=None):
        r.ev += 1
        r.transitions += 1
        xr = None if xm is None else LR[xm]
        xo = None if xm is None else LO[xm]
        yr, yo = (LR[ym], LO[ym]) if yk == "elem" else (ym, ym)
        gr, go = fl.run_op(cr, op, xr, yr), fl.run_op(co, op, xo, yo)
        if fam_outcome(gr) != fam_outcome(go):
            bad(op, {"x": None if xm is None else fl.el_json(cr, xm),
                     "y": fl.el_json(cr, ym) if yk == "elem" else fl.jint(ym), "yk": yk}, gr, go)

    cmp("one", None)
    cmp("zero", None)
    if q <= 169:
        small_exps, more_exps = list(range(0, 2 * q + 1)), []
    else:
        small_exps = [0, 1, 2, 3, q - 1, q]
        more_exps = sorted(set(range(4, 17)) | {p, p * p, q + 1})
    huge = [2 ** 700 + 1, 2 ** 4400 + 1, fl.IntSub(q + 2), 2 ** 61 - 1 + 2, 10 ** 4400 + 7]
    # exponents below zero: whatever the reference class answers, the optimized class answers the same
    neg_exps = [-1, -2, -3, -q, -(2 ** 70) - 1]
    for i, xm in enumerate(A):
        cmp("neg", xm)
        cmp("inv", xm)
        for n in small_exps + (more_exps if i < 12 else []) + (neg_exps if i < 40 else neg_exps[:1]):
            cmp("pow", xm, n, "exp")
        if i < 3:
            for n in huge if i < (1 if cr.mc is not None and len(cr.mc) == 12 else 2) else huge[:-1]:
                cmp("pow", xm, n, "exp")
        # sgn0: optimized classes only have it; compare with the RFC loop
        r.ev += 1
        got = fl.run_op(co, "sgn0", LO[xm])
        exp = ("ok", fl.sgn0_rfc(co, xm))
        if got != exp:
            r.viol("C14:%s:sgn0" % kind, ME + ":replay_table",
                   {"p": p, "mc": a.get("mc"), "op": "sgn0", "args": {"x": fl.el_json(cr, xm)}}, exp, got)
    r.dn += len(A)
    # elements constructed from same-family FQ objects instead of ints (a documented constructor
    # form): same values, same sgn0, same results in both families
    if cr.mc is not None:
        partner = next((b for b in B if not F.is_zero(b)), None)
        for xi, xm in enumerate(A[:600]):
            for form in (CTOR_FORMS if xi < 60 else CTOR_FORMS[:1]):
                for (op, bad_out) in fqform_case(cr, co, xm, partner, form):
                    r.viol("C14:%s:%s:%s" % (kind, "fq-coefficient-form" if form == "fq-objects" else "constructor-form", op),
                           ME + ":replay_fqform",
                           {"p": p, "mc": a.get("mc"), "x": list(xm), "y": list(partner) if partner else None, "form": form},
                           bad_out[0], bad_out[1], note="%s / %s" % (form, op))
                r.ev += 6
                r.transitions += 6
    # error paths followed by ordinary operations
    nzq = [b for b in B if not F.is_zero(b)][:2]
    for xm in [e for e in A if not F.is_zero(e)][:6]:
        for ym in nzq:
            for (op, bad_out) in errpath_case(cr, co, xm, ym):
                r.viol("C14:%s:after-error-path:%s" % (kind, op.split(":")[0]), ME + ":replay_errpath",
                       {"p": p, "mc": a.get("mc"), "x": fl.el_json(cr, xm), "y": fl.el_json(cr, ym)},
                       bad_out[0], bad_out[1], note=op)
            r.ev += 48
            r.transitions += 48
    # augmented assignment: value and absence of aliasing
    nz = [b for b in B if not F.is_zero(b)][:3]
    for xm in A[:60]:
        for ym in nz:
            for (op, bad_out) in iop_case(cr, co, xm, ym):
                r.viol("C14:%s:augmented-assignment:%s" % (kind, op.split(":")[0]), ME + ":replay_iop",
                       {"p": p, "mc": a.get("mc"), "x": fl.el_json(cr, xm), "y": fl.el_json(cr, ym)},
                       bad_out[0], bad_out[1], note=op)
            r.ev += 8
            r.transitions += 8
    ks = fl.INT_OPERANDS_TINY(p)
    int_ops = ["add", "sub", "mul", "div", "radd", "rsub", "rmul", "rdiv", "eq", "ne"]
    if cr.mc is None:
        int_ops += ["lt", "gt"]
    for xm in A[:200]:
        for k in ks + ([0, 1, p - 1] if cr.mc is None else []):
            for op in int_ops:
                if op in ("eq", "ne", "lt", "gt") and not (cr.mc is None):
                    continue  # FQP == int raises in both families (checked once below)
                cmp(op, xm, k, "int")
    # operand types both families must refuse or both accept
    for xm in A[:3]:
        for label, v in BAD_OPERANDS:
            for op in ("add", "sub", "mul", "div", "radd", "rsub", "rmul", "rdiv", "eq"):
                cmp(op, xm, v, "raw:" + label)
        if cr.mc is not None:
            for op in ("add", "sub", "eq", "radd", "rsub", "rdiv"):
                cmp(op, xm, 3, "int")
    bin_ops = ["add", "sub", "mul", "div", "eq", "ne"] + (["lt", "gt"] if cr.mc is None else [])
    for xm in A:
        for ym in B:
            for op in bin_ops:
                cmp(op, xm, ym, "elem")
        r.dn += len(B)
    r.sample({"field": fl.cfg_name(a), "modulus": a.get("mc"), "elements": len(A),
              "right_operands": len(B), "case": "every operator table entry, reference vs optimized"})
    return r


def _raw_operand(yk, y):
    if yk and yk.startswith("raw:"):
        return dict(BAD_OPERANDS)[yk[4:]]
    return y


def replay_table(a):
    cr, co = fl.cfg_of(a, "ref"), fl.cfg_of(a, "opt")
    op, args = a["op"], a["args"]
    xm = None if args.get("x") is None else fl.el_from(cr, args["x"])
    if op == "sgn0":
        got = fl.run_op(co, "sgn0", co.lib(xm))
        exp = ("ok", fl.sgn0_rfc(co, xm))
        return None if got == exp else {"expected": exp, "observed": got}
    yk = args.get("yk")
    ym = fl.unjint(args.get("y"))
    if yk == "elem":
        ym = fl.el_from(cr, ym)
        yr, yo = cr.lib(ym), co.lib(ym)
    else:
        yr = yo = _raw_operand(yk, ym)
        if yk == "int":
            for yf in fl.int_forms(yr):
                gr = fl.run_op(cr, op, None if xm is None else cr.lib(xm), yf)
                go = fl.run_op(co, op, None if xm is None else co.lib(xm), yf)
                if fam_outcome(gr) != fam_outcome(go):
                    return {"reference": gr, "optimized": go, "operand_type": type(yf).__name__}
            return None
    gr = fl.run_op(cr, op, None if xm is None else cr.lib(xm), yr)
    go = fl.run_op(co, op, None if xm is None else co.lib(xm), yo)
    return None if fam_outcome(gr) == fam_outcome(go) else {"reference": gr, "optimized": go}


# ------------------------------------------------------------------ full size: BFS by value
def leaves(cfg, env, tag):
    p = cfg.p
    g = rng(env, "leaves:" + tag)
    s1, s2 = g.randrange(p), g.randrange(p)
    if cfg.mc is None:
        return [0, 1, p - 1, 2, (p - 1) // 2, s1, s2]
    if len(cfg.mc) == 2:
        return [(0, 0), (1, 0), (0, 1), (1, 1), (p - 1, p - 1), (0, s1), (s1, 0), (s1, s2)]
    z = [0] * 12

    def e(**kw):
        t = z[:]
        for k, v in kw.items():
            t[int(k[1:])] = v
        return tuple(t)
    dense = tuple(g.randrange(p) for _ in range(12))
    c = 9 if cfg.p.bit_length() == 254 else 1
    return [e(), e(c0=1), e(c1=1), e(c6=1), e(c0=(1 - c) % p, c6=1), e(c0=s1, c7=p - 1), dense]


M61 = (1 << 61) - 1  # CPython's hash modulus for ints: x and x + M61 have equal hashes


def eqc_case(curve, grp, i, j, d):
    """elements that differ by a multiple of 2^61 - 1 in one coefficient: equal int hashes, different
    values.  ==, != and 'difference is zero' in both families."""
    cfgs = full_cfgs(curve)
    out = []
    for fam in ("ref", "opt"):
        cfg = cfgs[(fam, grp)]
        n = 1 if cfg.mc is None else len(cfg.mc)
        base = [((i * 7 + k * 3) % 5) for k in range(n)]
        other = list(base)
        other[j % n] = (other[j % n] + d * M61) % cfg.p
        xm, ym = (base[0], other[0]) if cfg.mc is None else (tuple(base), tuple(other))
        x, y = cfg.lib(xm), cfg.lib(ym)
        for op, exp in (("eq", xm == ym), ("ne", xm != ym)):
            got = fl.run_op(cfg, op, x, y)
            if got != ("ok", exp):
                out.append((fam, op, [xm, ym], ("ok", exp), got))
        got = fl.run_op(cfg, "eq", x - y, cfg.cls.zero())
        if got != ("ok", xm == ym):
            out.append((fam, "x-y==0", [xm, ym], ("ok", xm == ym), got))
        got = fl.run_op(cfg, "eq", y, cfg.lib(ym))
        if got != ("ok", True):
            out.append((fam, "eq-self", [ym], ("ok", True), got))
    return out


def task_eq_collisions(a, env):
    r = R("full-size:equality-of-hash-colliding-values")
    for curve in ("bn128", "bls12_381"):
        for grp in ("E2", "E12", "E1"):
            for i in range(3):
                for j in (0, 1, 5, 11):
                    for d in (1, 2, 1 << 20):
                        bad = eqc_case(curve, grp, i, j, d)
                        r.ev += 8
                        r.transitions += 8
                        r.dk.add((curve, grp, i, j, d))
                        for fam, op, args, exp, got in bad[:1]:
                            r.viol("C14:%s:eq-of-hash-colliding-values:%s" % (grp, fam), ME + ":replay_eqc",
                                   {"curve": curve, "group": grp, "i": i, "j": j, "d": d}, exp, got, note=op)
    r.states = 1
    r.sample({"pairs": "x and x + k*(2^61-1) in one coefficient", "groups": ["FQ", "FQ2", "FQ12"], "ops": ["==", "!=", "x-y == 0"]})
    return r


def replay_eqc(a):
    bad = eqc_case(a["curve"], a["group"], a["i"], a["j"], a["d"])
    return None if not bad else {"mismatches": [(f, o, e, g) for f, o, _a, e, g in bad]}


def task_subsub(a, env):
    """classes derived from an already used concrete class with another prime / modulus (both families)"""
    from . import C08

    r = R("subclass-of-subclass-sequences")
    for fam in ("ref", "opt"):
        for (p1, mc1, p2, mc2) in a["cases"]:
            bad = C08.subsub_case(fam, p1, mc1, p2, mc2, a["xs"])
            r.ev += 30
            r.transitions += 3
            r.dk.add((fam, p1, tuple(mc1), p2, tuple(mc2)))
            for (step, cfgd, op, args, exp, got) in bad[:1]:
                r.viol("C14:FQ2:subclass-of-subclass:%s:%s" % (fam, op), "mc.props.C08:replay_subsub",
                       {"fam": fam, "p1": p1, "mc1": list(mc1), "p2": p2, "mc2": list(mc2), "xs": a["xs"]}, exp, got,
                       note="step %d (%s) of A, B(A), A" % (step, cfgd))
    r.states = len(a["cases"])
    r.sample({"sequence": "class A(p1, mc1) used; B(A) overriding prime and modulus used; A again", "cases": a["cases"][:2]})
    return r


def task_inv_sweep(a, env):
    """x * (1/x) == 1 and 1/x == model for EVERY residue of every prime in the given range (both
    families, prime fields by subclassing), and for a window around p/phi at full size (worst
    case of Euclid's algorithm)"""
    from .. import lib as _lib
    from ..model.zp import is_prime

    r = R("inverse-sweep:all-residues-of-small-primes")
    for p in range(a["lo"], a["hi"]):
        if not is_prime(p):
            continue
        cls = {fam: _lib.fq_class(fam, p) for fam in ("ref", "opt")}
        for x in range(1, p):
            want = pow(x, -1, p)
            for fam in ("ref", "opt"):
                try:
                    got = (1 / cls[fam](x)).n
                except Exception as e:  # noqa: BLE001
                    got = "raise " + type(e).__name__
                if got != want:
                    r.viol("C14:FQ:inverse:%s" % fam, ME + ":replay_inv", {"p": p, "x": hex(x), "fam": fam}, want, got)
        r.ev += 2 * (p - 1)
        r.dn += p - 1
        r.states += 1
    r.transitions = r.ev
    if a.get("sample"):
        r.sample({"primes": "all primes in [%d, %d)" % (a["lo"], a["hi"]), "residues": "all"})
    return r


def task_inv_phi(a, env):
    from math import isqrt
    r = R("inverse-sweep:window-around-p/phi")
    for curve in ("bn128", "bls12_381"):
        cfgs = full_cfgs(curve)
        p = cfgs[("ref", "E1")].p
        # floor(p / phi), phi = (1 + sqrt 5) / 2, in integer arithmetic
        S_ = 10 ** 200
        x0 = (2 * p * S_) // (S_ + isqrt(5 * S_ * S_))
        for base in (x0, p - x0):
            for x in range(base - a["w"], base + a["w"]):
                want = pow(x, -1, p)
                for fam in ("ref", "opt"):
                    cfg = cfgs[(fam, "E1")]
                    try:
                        got = (1 / cfg.lib(x)).n
                    except Exception as e:  # noqa: BLE001
                        got = "raise " + type(e).__name__
                    if got != want:
                        r.viol("C14:FQ:inverse-near-p/phi:%s" % fam, ME + ":replay_inv", {"p": p, "x": hex(x), "fam": fam}, want, got)
                r.ev += 2
                r.dn += 1
        # partial quotients of every size: x = (p + t) / k with t of every bit length below p / k makes
        # Euclid's algorithm meet a quotient of about 2^j for every j (an estimated quotient must be exact)
        for x in quotient_size_inputs(p):
            want = pow(x, -1, p)
            for fam in ("ref", "opt"):
                cfg = cfgs[(fam, "E1")]
                try:
                    got = (1 / cfg.lib(x)).n
                except Exception as e:  # noqa: BLE001
                    got = "raise " + type(e).__name__
                if got != want:
                    r.viol("C14:FQ:inverse-with-large-partial-quotient:%s" % fam, ME + ":replay_inv", {"p": p, "x": hex(x), "fam": fam}, want, got)
            r.ev += 2
            r.dn += 1
    r.transitions = r.ev
    r.states = 2
    r.sample({"window": "floor(p/phi) +- %d and p - floor(p/phi) +- %d" % (a["w"], a["w"]), "fields": ["bn128 FQ", "bls12_381 FQ"],
              "quotient_sizes": "x = (p + t) / k, k in 1,2,3,5,7,11, t of every bit length"})
    return r


def quotient_size_inputs(p):
    import hashlib
    out = []
    for k in (1, 2, 3, 5, 7, 11):
        L = (p // k).bit_length()
        for j in range(1, L - 2):
            # quotients next to a machine-word boundary (2^31..2^33, 2^62..2^66, 2^126..2^130): more variants
            nvar = 12 if (30 <= j <= 34 or 61 <= j <= 67 or 125 <= j <= 131) else 2
            for v in range(nvar):
                # t: top bit set, all lower bits dense (a truncated divisor must not be good enough)
                dense = int.from_bytes(hashlib.sha512(b"%d/%d/%d" % (k, j, v)).digest() * 2, "big")
                t = (1 << (L - j - 1)) | (dense % (1 << (L - j - 1))) | 1
                t += (-p - t) % k
                x = (p + t) // k
                if 0 < x < p:
                    out += [x, p - x]
                x2 = (p - t - ((p - t) % k)) // k  # the same from below
                if 0 < x2 < p:
                    out.append(x2)
    return out


def replay_inv(a):
    from .. import lib as _lib
    p, x = a["p"], int(a["x"], 16)
    cls = _lib.fq_class(a["fam"], p)
    if p.bit_length() > 64:
        for curve in ("bn128", "bls12_381"):
            cfg = full_cfgs(curve)[(a["fam"], "E1")]
            if cfg.p == p:
                cls = cfg.cls
    try:
        got = (1 / cls(x)).n
    except Exception as e:  # noqa: BLE001
        got = "raise " + type(e).__name__
    want = pow(x, -1, p)
    return None if got == want else {"expected": want, "observed": got}


def task_bfs(a, env):
    curve, grp, depth = a["curve"], a["group"], a["depth"]
    cfgs = full_cfgs(curve)
    cr, co = cfgs[("ref", grp)], cfgs[("opt", grp)]
    kind = kindname(cr)
    p = cr.p
    r = R("bfs:%s:%s" % (curve, kind))
    L0 = leaves(cr, env, "%s:%s" % (curve, grp))
    if a.get("leaves"):
        L0 = L0[: a["leaves"]]
    ks = [0, 1, -1, p, p + 1, 2 ** 400 + 3]
    exps = [0, 1, 2, 3, p - 2, p * p]
    states = {}
    order = []

    def add_state(v):
        if v not in states:
            states[v] = (cr.lib(v), co.lib(v))
            order.append(v)
            return True
        return False

    for v in L0:
        add_state(v)
    full_square = a.get("square", False)

    def step(op, xm, ym=None, yk=None):
        r.ev += 2
        r.transitions += 1
        xr, xo = states[xm]
        if yk == "elem":
            yr, yo = states[ym]
        else:
            yr = yo = ym
        gr, go = fl.run_op(cr, op, xr, yr), fl.run_op(co, op, xo, yo)
        if fam_outcome(gr) != fam_outcome(go):
            r.viol("C14:%s:%s:bfs:%s" % (curve, kind, op), ME + ":replay_bfs",
                   {"curve": curve, "group": grp, "op": op, "x": fl.el_json(cr, xm),
                    "y": fl.el_json(cr, ym) if yk == "elem" else fl.jint(ym), "yk": yk}, gr, go)
            return None
        if gr[0] == "ok" and not isinstance(gr[1], bool):
            return gr[1]
        return None

    frontier = list(order)
    slow = kind == "FQ12"
    for lvl in range(1, depth + 1):
        new = []
        prev_all = list(order)
        last = lvl == depth
        for xm in frontier:
            outs = [step("neg", xm), step("inv", xm)]
            for n in (exps if not slow else exps[:4] + ([exps[4]] if lvl == 1 else [])):
                outs.append(step("pow", xm, n, "exp"))
            for k in ks:
                for op in (("mul", "div", "rmul") if cr.mc is not None else
                           ("add", "sub", "mul", "div", "radd", "rsub", "rmul", "rdiv")):
                    outs.append(step(op, xm, k, "int"))
            others = prev_all if full_square else L0
            for ym in others:
                for op in ("add", "sub", "mul", "div"):
                    outs.append(step(op, xm, ym, "elem"))
                    if ym not in frontier or not full_square:
                        outs.append(step(op, ym, xm, "elem"))
                for op in ("eq", "ne") + (("lt", "gt") if cr.mc is None else ()):
                    step(op, xm, ym, "elem")
            if not last:
                for v in outs:
                    if v is not None and v not in states:
                        add_state(v)
                        new.append(v)
        frontier = new
        if a.get("cap") and len(frontier) > a["cap"]:
            r.caps.append("frontier at depth %d capped to %d of %d states" % (lvl, a["cap"], len(frontier)))
            frontier = frontier[: a["cap"]]
    r.states += len(states)
    r.dn += len(states)
    r.notes["depth"] = depth
    r.sample({"curve": curve, "class": kind, "depth": depth, "leaves": len(L0), "states": len(states),
              "operators": "+,-,*,/ (element and int operands, both orders), neg, inv, ** {0,1,2,3,p-2,p^2}, ==, !=, <, >"})
    return r


def replay_bfs(a):
    cfgs = full_cfgs(a["curve"])
    cr, co = cfgs[("ref", a["group"])], cfgs[("opt", a["group"])]
    xm = fl.el_from(cr, a["x"])
    ym = a.get("y")
    if a.get("yk") == "elem":
        ym = fl.el_from(cr, ym)
        yr, yo = cr.lib(ym), co.lib(ym)
    else:
        yr = yo = ym
    gr = fl.run_op(cr, a["op"], cr.lib(xm), yr)
    go = fl.run_op(co, a["op"], co.lib(xm), yo)
    return None if fam_outcome(gr) == fam_outcome(go) else {"reference": gr, "optimized": go}


def run(ctx):
    zp.selfcheck()
    ctx.rule = (
        "tiny fields: every entry of every operator table (unary, binary on all ordered pairs, "
        "int operands in both orders, refused operand types) is evaluated in both families and "
        "compared; full size: breadth-first closure by value (states = distinct field values "
        "reached), every transition executed in both families. Distinct = table entries / "
        "distinct states."
    )
    ctx.assumptions = [
        "if every operator-table edge agrees on a finite field, every straight-line program of any "
        "depth agrees there (induction over the program) - DESIGN 6/C14",
        "exception *types* may differ between families; acceptance vs refusal may not",
        "FQ objects as *operands* of FQP arithmetic are outside the statement (reference accepts, optimized "
        "refuses); elements *constructed* from same-family FQ coefficients are inside it",
    ]
    tasks = []
    for p in [2, 3, 5, 7, 11, 13]:
        tasks.append(("tables", {"p": p}))
    q_p = [2, 3, 5] if ctx.quick else [2, 3, 5, 7, 11, 13]
    nquad = 0
    for p in [2, 3, 5, 7, 11, 13]:
        mods = fl.quadratics(p)
        if p not in q_p:
            n = 2 if p == 7 else 1
            mods = [m for m in mods if m[1] == 0][:n] + [m for m in mods if m[1] != 0][:n]
        elif p >= 11:
            # thorough: every irreducible quadratic for p <= 7; six [three] of each kind for p = 11 [13] (all of them cost hours)
            n = 6 if p == 11 else 3
            mods = [m for m in mods if m[1] == 0][:n] + [m for m in mods if m[1] != 0][:n]
        for mc in mods:
            nquad += 1
            tasks.append(("tables", {"p": p, "mc": list(mc)}))
    ctx.bounds["fq2_moduli"] = nquad
    for p in (2, 3, 5, 7):
        for mc in fl.deg12_moduli(p):
            if ctx.quick:
                spec = ({"A": "structured:60", "B": "structured:4", "Bmax": 8, "Amax": 150} if p == 2
                        else {"A": "structured:12", "B": "structured:4", "Bmax": 8, "Amax": 100})
            else:
                first = list(mc) == list(fl.deg12_moduli(p)[0])
                spec = ({"A": "all" if first else "structured:600", "B": "structured:20", "Bmax": 30} if p == 2
                        else {"A": "structured:%d" % (400 if p == 3 else 150), "B": "structured:10", "Bmax": 24})
            spec.update({"p": p, "mc": list(mc)})
            tasks.append(("tables", spec))
    full = []
    for curve in ("bls12_381", "bn128"):
        full.append(("bfs", {"curve": curve, "group": "E12", "depth": 2, "leaves": 5 if ctx.quick else 7,
                             "cap": 12 if ctx.quick else 60}))
        full.append(("bfs", {"curve": curve, "group": "E2", "depth": 2 if ctx.quick else 3,
                             "square": ctx.quick, "cap": 400}))
        full.append(("bfs", {"curve": curve, "group": "E1", "depth": 2 if ctx.quick else 3,
                             "square": True, "cap": 600 if ctx.quick else 1500}))
    full.append(("eq_collisions", {}))
    hi_p = 1000 if ctx.quick else 4000
    for lo in range(2, hi_p, 125):
        full.append(("inv_sweep", {"lo": lo, "hi": min(hi_p, lo + 125), "sample": lo == 2}))
    full.append(("inv_phi", {"w": 3000 if ctx.quick else 20000}))
    q7, q11, q5 = fl.quadratics(7), fl.quadratics(11), fl.quadratics(5)
    full.append(("subsub", {"xs": [[0, 1], [1, 1], [2, 6], [3, 4]],
                            "cases": [(7, list(q7[0]), 11, list(q11[0])), (11, list(q11[1]), 7, list(q7[2])),
                                      (5, list(q5[0]), 7, list(q7[-1])), (7, list(q7[1]), 7, list(q7[3]))]}))
    ctx.bounds["bfs"] = "depth 2 (quick) / 3 (thorough FQ, FQ2); FQ12 depth 2 with one leaf operand"
    tasks.sort(key=lambda t: -(len(t[1].get("mc") or []) * 10 + t[1].get("p", 0)))
    ctx.pmap(ME, full + tasks)

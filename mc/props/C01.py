"""C01 - every honestly produced signature and possession proof verifies; bad keys are refused.

Full size (there is no small configuration of the BLS layer: widths and tags are literals).
Alphabets: secret keys = boundaries, 2^k and 2^k - 1 for a bit-length sweep (crosses 2^53), seeded
full-width keys; messages = hash-block boundary lengths x fills.  Space = all tuples with at
most ONE deviation from the default (seeded key, b"abc") - every key with the default message,
every message with the default key - plus the complete product of the boundary keys with the
shortest messages; x 3 suites.  PopProve/PopVerify for every key.  Rejected keys / types against
SkToPk, Sign, PopProve of every suite.  KeyGen outputs are fed through SkToPk / Sign / Verify.
"""
from ..core import R, rng
from ..model import bls as MB
from ..model import bls as _MBX
from . import blslib as BL

LEVEL = "exploration"
ME = "mc.props.C01"
R_ = MB.R


def key_domain(env, quick):
    g = rng(env, "keys")
    ks = [("default", g.randrange(1, R_)), ("1", 1), ("2", 2), ("3", 3), ("r-2", R_ - 2), ("r-1", R_ - 1)]
    bits = [1, 2, 8, 16, 32, 53, 54, 64, 77, 78, 128, 192, 254] if quick else list(range(1, 255))
    for k in bits:
        ks.append(("2^%d" % k, 2**k))
        if k > 1:
            ks.append(("2^%d-1" % k, 2**k - 1))
    for i in range(3 if quick else 64):
        ks.append(("seeded%d" % i, g.randrange(1, R_)))
    # encodings whose leading byte equals the leading byte of p (0x1a): the public key, and the
    # signature of the default message in the basic / PoP suites
    for lbl, k in BL.leading_byte_keys().items():
        ks.append((lbl, k))
    return [(l, k) for l, k in ks if 1 <= k < R_]


def msg_domain(env, quick):
    g = rng(env, "msgs")
    lens = [0, 1, 31, 32, 33, 55, 56, 63, 64, 65, 119, 120, 127, 128, 129, 1000, 4096, 65487, 65536, 70001]
    if not quick:
        lens += [16384, 65535, 65488, 200000]
    out = [("default", b"abc")]
    for n in lens:
        out.append(("count:%d" % n, bytes(i & 0xFF for i in range(n))))
    for n in (1, 32, 64) if quick else lens[1:12]:
        out.append(("zero:%d" % n, b"\x00" * n))
        out.append(("ff:%d" % n, b"\xff" * n))
        out.append(("seeded:%d" % n, bytes(g.getrandbits(8) for _ in range(n))))
    return out


def honest_case(suite, sk, msg):
    """None or (class, expected, observed)"""
    S = BL.suite_cls(suite)
    pk = BL.call(S.SkToPk, sk)
    if pk[0] != "ok" or not isinstance(pk[1], bytes) or len(pk[1]) != 48:
        return ("SkToPk", "48 bytes", pk)
    sig = BL.call(S.Sign, sk, msg)
    if sig[0] != "ok" or not isinstance(sig[1], bytes) or len(sig[1]) != 96:
        return ("Sign", "96 bytes", sig)
    # history: related inputs through other public entry points first (whatever those calls answer
    # or raise, they must not influence the verdict)
    BL.prelude(suite, pk[1], _MBX.hashed_message(suite, sk, msg), _MBX.DST[suite], sig[1])
    v = BL.verdict(S.Verify, pk[1], msg, sig[1])
    if v is not True:
        return ("Verify", True, v)
    return None


def pop_case(sk):
    S = BL.suite_cls("pop")
    pk = BL.call(S.SkToPk, sk)
    if pk[0] != "ok":
        return ("SkToPk", "48 bytes", pk)
    # one history: the key bytes signed and verified as an ordinary message, then the possession
    # proof, then the message signature again (same bytes under two tags)
    sg = BL.call(S.Sign, sk, pk[1])
    if sg[0] != "ok":
        return ("Sign(message = own pk)", "96 bytes", sg)
    v = BL.verdict(S.Verify, pk[1], pk[1], sg[1])
    if v is not True:
        return ("Verify(message = own pk)", True, v)
    pr = BL.call(S.PopProve, sk)
    if pr[0] != "ok" or not isinstance(pr[1], bytes) or len(pr[1]) != 96:
        return ("PopProve", "96 bytes", pr)
    v = BL.verdict(S.PopVerify, pk[1], pr[1])
    if v is not True:
        return ("PopVerify", True, v)
    v = BL.verdict(S.Verify, pk[1], pk[1], sg[1])
    if v is not True:
        return ("Verify(message = own pk) after PopVerify", True, v)
    if pr[1] == sg[1]:
        return ("proof == message signature", "different byte strings", "equal")
    return None


class TaggedBytes(bytes):
    """a byte-string type that is a proper subclass of bytes (as hexbytes.HexBytes is)"""
    __slots__ = ()


def msgtype_case(suite, sk, msg):
    """the same message as a bytes-subclass instance: same signature bytes, verifies, and the plain
    and the subclass forms are interchangeable between Sign and Verify"""
    S = BL.suite_cls(suite)
    pk = BL.call(S.SkToPk, sk)
    plain = BL.call(S.Sign, sk, msg)
    if pk[0] != "ok" or plain[0] != "ok":
        return ("Sign", "96 bytes", plain)
    sub = BL.call(S.Sign, sk, TaggedBytes(msg))
    if sub != plain:
        return ("Sign(bytes-subclass message)", plain, sub)
    for lbl, m_, sg in (("subclass message, plain-message signature", TaggedBytes(msg), plain[1]),
                        ("subclass message, subclass signature", TaggedBytes(msg), TaggedBytes(plain[1])),
                        ("plain message, subclass key and signature", msg, TaggedBytes(plain[1]))):
        k_ = TaggedBytes(pk[1]) if "subclass key" in lbl else pk[1]
        v = BL.verdict(S.Verify, k_, m_, sg)
        if v is not True:
            return ("Verify(%s)" % lbl, True, v)
    if suite == "pop":
        pr = BL.call(S.PopProve, sk)
        v = BL.verdict(S.PopVerify, TaggedBytes(pk[1]), TaggedBytes(pr[1])) if pr[0] == "ok" else pr
        if v is not True:
            return ("PopVerify(subclass key and proof)", True, v)
    return None


def task_msgtype(a, env):
    r = R("bytes-subclass-arguments")
    for suite in BL.SUITES:
        for sk in a["sks"]:
            for msg in (b"", b"abc", bytes(range(64))):
                bad = msgtype_case(suite, sk, msg)
                r.ev += 1
                r.dk.add((suite, sk, msg))
                if bad:
                    r.viol("C01:%s:bytes-subclass:%s" % (suite, bad[0].split("(")[0]), ME + ":replay_msgtype",
                           {"suite": suite, "sk": hex(sk), "msg": msg.hex()}, bad[1], bad[2], note=bad[0])
    r.sample({"message": "TaggedBytes(b'abc') where class TaggedBytes(bytes)"})
    return r


def replay_msgtype(a):
    bad = msgtype_case(a["suite"], int(a["sk"], 16), bytes.fromhex(a["msg"]))
    return None if not bad else {"step": bad[0], "expected": bad[1], "observed": bad[2]}


def task_honest(a, env):
    r = R("sign-then-verify:%s" % a["suite"])
    for c in a["cases"]:
        sk, msg = int(c["sk"], 16), bytes.fromhex(c["msg"])
        bad = honest_case(a["suite"], sk, msg)
        r.ev += 1
        r.dk.add((sk, msg))
        if bad:
            r.viol("C01:%s:%s:%s" % (a["suite"], bad[0], "key>=2^53" if sk >= 2**53 else "key<2^53"),
                   ME + ":replay_honest", {"suite": a["suite"], "sk": c["sk"], "msg": c["msg"]}, bad[1], bad[2],
                   note="%s / %s" % (c["kl"], c["ml"]))
    if a.get("sample"):
        c = a["cases"][0]
        r.sample({"suite": a["suite"], "sk": c["kl"], "msg": c["ml"]})
    return r


def replay_honest(a):
    bad = honest_case(a["suite"], int(a["sk"], 16), bytes.fromhex(a["msg"]))
    return None if not bad else {"step": bad[0], "expected": bad[1], "observed": bad[2]}


def task_pop(a, env):
    r = R("PopProve-then-PopVerify")
    for kl, skh in a["keys"]:
        sk = int(skh, 16)
        bad = pop_case(sk)
        r.ev += 1
        r.dk.add(sk)
        if bad:
            r.viol("C01:pop:%s:%s" % (bad[0], "key>=2^53" if sk >= 2**53 else "key<2^53"), ME + ":replay_pop",
                   {"sk": skh}, bad[1], bad[2], note=kl)
    if a.get("sample"):
        r.sample({"keys": [k for k, _ in a["keys"][:4]]})
    return r


def replay_pop(a):
    bad = pop_case(int(a["sk"], 16))
    return None if not bad else {"step": bad[0], "expected": bad[1], "observed": bad[2]}


# ------------------------------------------------------------------ rejected keys
def bad_keys():
    from fractions import Fraction
    from decimal import Decimal
    return [("Fraction(5)", Fraction(5)), ("Decimal(5)", Decimal(5)), ("float(5)", 5.0),
            ("Fraction(7,2)", Fraction(7, 2)), ("0", 0), ("r", R_), ("r+1", R_ + 1), ("-1", -1), ("-r", -R_), ("2^255", 2**255), ("2^256", 2**256),
            ("2r", 2 * R_), ("r+2^300", R_ + 2**300), ("None", None), ("str", "1"), ("float", 1.0),
            ("float-large", 1e30), ("bytes", b"\x01"), ("tuple", (1,)), ("list", [1]), ("complex", 1j),
            # integers with more decimal digits than the interpreter's int -> str conversion limit
            ("10^5000+7", 10**5000 + 7), ("-10^5000", -(10**5000)), ("2^20000", 2**20000), ("r*2^16000", R_ << 16000)]


def reject_case(suite, i, fn, warm=False):
    S = BL.suite_cls(suite)
    label, k = bad_keys()[i]
    if warm:
        BL.call(S.SkToPk, 5)
        BL.call(S.Sign, 5, b"msg")
        if suite == "pop":
            BL.call(S.PopProve, 5)
    f = {"SkToPk": lambda: S.SkToPk(k), "Sign": lambda: S.Sign(k, b"msg"),
         "PopProve": lambda: S.PopProve(k)}[fn]
    o = BL.call(f)
    if o == ("raise", "ValidationError"):
        # the same refused key offered again straight away: refused again
        o2 = BL.call(f)
        if o2 == ("raise", "ValidationError"):
            return None
        return (label + " (offered a second time)", "ValidationError", o2 if o2[0] == "raise" else ("returned", repr(o2[1])[:60]))
    return (label, "ValidationError", o if o[0] == "raise" else ("returned", repr(o[1])[:60]))


def task_reject(a, env):
    r = R("invalid-keys-refused")
    for suite in BL.SUITES:
        # history: the valid int key 5 is used first (a result remembered for 5 must not be served
        # to a non-int that merely compares equal to 5)
        S = BL.suite_cls(suite)
        BL.call(S.SkToPk, 5)
        BL.call(S.Sign, 5, b"msg")
        if suite == "pop":
            BL.call(S.PopProve, 5)
        for i in range(len(bad_keys())):
            for fn in ("SkToPk", "Sign") + (("PopProve",) if suite == "pop" else ()):
                bad = reject_case(suite, i, fn)
                r.ev += 1
                r.dk.add((suite, i, fn))
                if bad:
                    kind = "int" if isinstance(bad_keys()[i][1], int) else "type"
                    r.viol("C01:%s:%s:accepts-invalid-key:%s" % (suite, fn, kind), ME + ":replay_reject",
                           {"suite": suite, "i": i, "fn": fn}, bad[1], bad[2], note=bad[0])
    r.sample({"rejected": [l for l, _ in bad_keys()]})
    return r


def replay_reject(a):
    bad = reject_case(a["suite"], a["i"], a["fn"], True)
    return None if not bad else {"key": bad[0], "expected": bad[1], "observed": bad[2]}


# ------------------------------------------------------------------ KeyGen
def keygen_case(suite, li, lk, fill):
    S = BL.suite_cls(suite)
    ikm = bytes(((i * 3 + fill) & 0xFF) for i in range(li))
    info = bytes(((i * 5 + fill) & 0xFF) for i in range(lk))
    o = BL.call(S.KeyGen, ikm, info)
    if o[0] != "ok" or type(o[1]) is not int or not (1 <= o[1] < R_):
        return ("KeyGen-range", "an int in [1, r-1]", o)
    bad = honest_case(suite, o[1], b"keygen")
    if bad:
        return ("KeyGen-unusable:" + bad[0], bad[1], bad[2])
    return None


def task_keygen(a, env):
    r = R("KeyGen-keys-usable")
    for (suite, li, lk, fill) in a["cases"]:
        bad = keygen_case(suite, li, lk, fill)
        r.ev += 1
        r.dk.add((suite, li, lk, fill))
        if bad:
            r.viol("C01:%s:%s" % (suite, bad[0]), ME + ":replay_keygen",
                   {"suite": suite, "li": li, "lk": lk, "fill": fill}, bad[1], bad[2])
    if a.get("sample"):
        r.sample({"cases(suite, ikm_len, key_info_len, fill)": a["cases"][:3]})
    return r


def replay_keygen(a):
    bad = keygen_case(a["suite"], a["li"], a["lk"], a["fill"])
    return None if not bad else {"step": bad[0], "expected": bad[1], "observed": bad[2]}


def run(ctx):
    ctx.rule = ("all (key, message) tuples with at most one deviation from the default pair + the "
                "complete product boundary keys x shortest messages, per suite; one case = one "
                "sign-then-verify; rejected keys: complete product key x function x suite")
    ctx.assumptions = ["bool is an int (DESIGN 7 #3): True/False are not in the rejected alphabet",
                       "keys / messages outside the alphabets are not covered; the ladder is covered for all "
                       "scalars on small curves by C07"]
    keys = key_domain(ctx.env, ctx.quick)
    msgs = msg_domain(ctx.env, ctx.quick)
    cases = []
    dk, dm = keys[0], msgs[0]
    # messages that begin with the signer's own public-key bytes (the augmentation suite hashes
    # pk || message: such messages must not be special)
    from ..model import bls as _MB
    for (kl, k) in keys[:3]:
        pkb = _MB.sk_to_pk(k)
        msgs.append(("own-pk-prefix:%s" % kl, pkb + b"abc"))
        msgs.append(("own-pk-only:%s" % kl, pkb))
    for (kl, k) in keys:
        cases.append({"kl": kl, "ml": dm[0], "sk": hex(k), "msg": dm[1].hex()})
    for (ml, m) in msgs[1:]:
        cases.append({"kl": dk[0], "ml": ml, "sk": hex(dk[1]), "msg": m.hex()})
    for (kl, k) in keys[1:6]:
        for (ml, m) in msgs[1:7]:
            cases.append({"kl": kl, "ml": ml, "sk": hex(k), "msg": m.hex()})
    ctx.bounds = {"keys": len(keys), "messages": len(msgs), "deviation_bound": 1,
                  "cases_per_suite": len(cases), "suites": 3, "rejected_key_alphabet": len(bad_keys())}
    tasks = []
    nt = 16 if ctx.quick else 48
    for suite in BL.SUITES:
        for i in range(nt):
            ch = cases[i::nt]
            if ch:
                tasks.append(("honest", {"suite": suite, "cases": ch, "sample": i == 0}))
    ks = [(l, hex(k)) for l, k in keys]
    for i in range(8):
        tasks.append(("pop", {"keys": ks[i::8], "sample": i == 0}))
    tasks.append(("reject", {}))
    tasks.append(("msgtype", {"sks": [1, 5]}))
    tasks.append(("msgtype", {"sks": [R_ - 1, 0x1234567890abcdef1234567890abcdef]}))
    kg = [(s, li, lk, f) for s in BL.SUITES for li in (0, 1, 31, 32, 33, 64, 128) for lk in (0, 1, 64)
          for f in ((0,) if ctx.quick else (0, 7))]
    if ctx.quick:
        kg = [c for c in kg if c[0] == "basic" or (c[1] in (0, 32) and c[2] in (0, 64))]
    for i in range(8):
        tasks.append(("keygen", {"cases": kg[i::8], "sample": i == 0}))
    ctx.pmap(ME, tasks)

"""C16 - HKDF and KeyGen match RFC 5869 and the BLS draft for all inputs.

Complete ranges: hkdf_extract on all (salt length, IKM length) pairs of a range square;
hkdf_expand on ALL output lengths 0..8160 and an info-length x L grid; KeyGen on all
(IKM length, key_info length) pairs of a range rectangle x fills x the three suites.
Oracle: mc.model.hkdf (HMAC written out from RFC 2104; anchored to RFC 5869 A.1-A.3 and
EIP-2333 case 0).
"""
import importlib

from ..core import R, rng
from ..model import hkdf as M
from ..model.params import BLS_R

LEVEL = "exploration"
ME = "mc.props.C16"


def _h():
    return importlib.import_module("py_ecc.bls.hash")


def _fill(kind, n, seed=0):
    if kind == "zero":
        return b"\x00" * n
    if kind == "ff":
        return b"\xff" * n
    if kind == "count":
        return bytes((i + seed) & 0xFF for i in range(n))
    import random

    g = random.Random("C16:%s:%d:%d" % (kind, n, seed))
    return bytes(g.getrandbits(8) for _ in range(n))


def _call(f, *a):
    try:
        return ("ok", f(*a))
    except Exception as e:  # noqa: BLE001
        return ("raise", type(e).__name__)


def _norm(o):
    if o[0] == "ok" and isinstance(o[1], (bytes, bytearray)):
        return ("ok", bytes(o[1]))
    if o[0] == "ok":
        return ("ok-nonbytes", repr(o[1])[:60])
    return o


def ex_case(a):
    H = _h()
    salt = _fill(a["fill"], a["ls"], 1)
    ikm = _fill(a["fill"], a["li"], 2)
    if a.get("ba"):
        salt, ikm = bytearray(salt), bytearray(ikm)
    return ("ok", M.extract(salt, ikm)), _norm(_call(H.hkdf_extract, salt, ikm))


def task_extract(a, env):
    r = R("hkdf_extract:salt-x-ikm-lengths")
    lens = a["lens"]
    for ls in a["rows"]:
        for li in lens:
            for fill in a["fills"]:
                c = {"ls": ls, "li": li, "fill": fill, "ba": (ls + li) % 7 == 3}
                exp, got = ex_case(c)
                r.ev += 1
                if exp != got:
                    r.viol("C16:hkdf_extract:%s" % ("salt>64" if ls > 64 else "salt<=64"), ME + ":replay",
                           dict(c, f="extract"), exp, got)
        r.dn += len(lens) * len(a["fills"])
    if a.get("sample"):
        r.sample({"f": "hkdf_extract", "salt_len": a["rows"][:3], "ikm_len": lens[:3], "fills": a["fills"]})
    return r


def xp_case(a):
    H = _h()
    prk = M.extract(b"salt", _fill("count", 32, a.get("k", 0)))
    if a.get("prklen") is not None:
        prk = _fill("count", a["prklen"], 9)
    info = _fill(a["fill"], a["linfo"], 3)
    if a.get("ba"):
        prk, info = bytearray(prk), bytearray(info)
    return ("ok", M.expand(prk, info, a["L"])), _norm(_call(H.hkdf_expand, prk, info, a["L"]))


def task_expand(a, env):
    r = R("hkdf_expand:all-output-lengths")
    for L in a["Ls"]:
        for linfo in a["linfos"]:
            c = {"L": L, "linfo": linfo, "fill": a["fill"], "ba": (L + linfo) % 5 == 1,
                 "prklen": a.get("prklen")}
            exp, got = xp_case(c)
            r.ev += 1
            if exp != got:
                cls = "L%%32=0" if L % 32 == 0 else "L%%32!=0"
                r.viol("C16:hkdf_expand:%s:%s" % (cls % (), "blocks>3" if L > 96 else "blocks<=3"),
                       ME + ":replay", dict(c, f="expand"), exp, got)
        r.dn += len(a["linfos"])
    if a.get("sample"):
        r.sample({"f": "hkdf_expand", "L": a["Ls"][:4], "info_len": a["linfos"][:4]})
    return r


def kg_case(a):
    S = getattr(importlib.import_module("py_ecc.bls"), a["suite"])
    ikm = _fill(a["fill"], a["li"], 4)
    info = _fill(a["fill"], a["lk"], 5)
    exp = ("ok", M.keygen(ikm, info))
    if a["lk"] == 0 and a.get("default"):
        got = _call(S.KeyGen, ikm)
    else:
        got = _call(S.KeyGen, ikm, info)
    if got[0] == "ok":
        sk = got[1]
        if type(sk) is not int or not (1 <= sk < BLS_R):
            return exp, ("ok-out-of-range", repr(sk)[:80])
        again = _call(S.KeyGen, TaggedBytes(ikm), TaggedBytes(info))
        if again != got:
            return exp, ("differs-for-bytes-subclass-arguments-or-nondeterministic", repr(again)[:80])
    return exp, got


def task_keygen(a, env):
    r = R("KeyGen:ikm-x-key_info-lengths")
    for li in a["lis"]:
        for lk in a["lks"]:
            for fill in a["fills"]:
                c = {"suite": a["suite"], "li": li, "lk": lk, "fill": fill, "default": li % 2 == 0}
                exp, got = kg_case(c)
                r.ev += 1
                if exp != got:
                    r.viol("C16:KeyGen:%s" % a["suite"], ME + ":replay", dict(c, f="keygen"), exp, got)
        r.dn += len(a["lks"]) * len(a["fills"])
    if a.get("sample"):
        r.sample({"f": "KeyGen", "suite": a["suite"], "ikm_len": a["lis"][:3], "key_info_len": a["lks"][:3]})
    return r


class TaggedBytes(bytes):
    __slots__ = ()


def mut_case(a):
    """one history: call with bytearray arguments, mutate them in place, call again - both results
    must be the RFC values of the contents at the time of the call"""
    H = _h()
    out = []
    if a["which"] == "extract":
        salt, ikm = bytearray(_fill("count", a["l1"], 1)), bytearray(_fill("count", a["l2"], 2))
        # first of all: the same contents as instances of a proper subclass of bytes
        out.append((-1, ("ok", M.extract(bytes(salt), bytes(ikm))),
                    _norm(_call(H.hkdf_extract, TaggedBytes(salt), TaggedBytes(ikm)))))
        for step in range(3):
            exp = ("ok", M.extract(bytes(salt), bytes(ikm)))
            got = _norm(_call(H.hkdf_extract, salt, ikm))
            out.append((step, exp, got))
            if step == 0 and len(salt):
                salt[0] ^= 0x55
            elif step == 1 and len(ikm):
                ikm[-1] ^= 0x0F
    else:
        prk, info = bytearray(_fill("count", 32, 7)), bytearray(_fill("count", a["l2"], 3))
        out.append((-1, ("ok", M.expand(bytes(prk), bytes(info), a["l1"])),
                    _norm(_call(H.hkdf_expand, TaggedBytes(prk), TaggedBytes(info), a["l1"]))))
        for step in range(3):
            exp = ("ok", M.expand(bytes(prk), bytes(info), a["l1"]))
            got = _norm(_call(H.hkdf_expand, prk, info, a["l1"]))
            out.append((step, exp, got))
            if step == 0:
                prk[0] ^= 0x55
            elif step == 1 and len(info):
                info[-1] ^= 0x0F
        # plain bytes arguments; the returned buffer is wiped by the caller (as key material is) between
        # two equal calls
        bp, bi = bytes(prk), bytes(info)
        for step in (3, 4, 5):
            o = _call(H.hkdf_expand, bp, bi, a["l1"])
            out.append((step, ("ok", M.expand(bp, bi, a["l1"])), _norm(o)))
            if o[0] == "ok" and isinstance(o[1], bytearray):
                o[1][:] = bytes(len(o[1]))
    return out


def task_mutated(a, env):
    r = R("hkdf:bytearray-arguments-mutated-between-calls")
    for which in ("extract", "expand"):
        for l1 in ((0, 1, 13, 32, 64, 65) if which == "extract" else (1, 32, 42, 82)):
            for l2 in (0, 1, 22, 80):
                c = {"which": which, "l1": l1, "l2": l2}
                res = mut_case(c)
                r.ev += len(res)
                r.dk.add((which, l1, l2))
                for step, exp, got in res:
                    if exp != got:
                        r.viol("C16:hkdf_%s:stale-after-in-place-mutation" % which, ME + ":replay_mut", c, exp, got,
                               note="call %d of 3" % step)
                        break
    r.sample({"sequence": "f(bytearrays) ; mutate salt/prk in place ; f ; mutate ikm/info ; f"})
    return r


def sweep_case(which, n):
    from .. import lib as _lib
    H = _h()
    if which == "extract":
        call = lambda x: _norm(_call(H.hkdf_extract, b"salt", x))  # noqa: E731
        expect = lambda x: ("ok", M.extract(b"salt", x))  # noqa: E731
    elif which == "expand":
        call = lambda x: _norm(_call(H.hkdf_expand, x.ljust(32, b"."), b"info", 48))  # noqa: E731
        expect = lambda x: ("ok", M.expand(x.ljust(32, b"."), b"info", 48))  # noqa: E731
    else:
        S = getattr(importlib.import_module("py_ecc.bls"), "G2ProofOfPossession")
        call = lambda x: _call(S.KeyGen, x.ljust(32, b"."), b"ki")  # noqa: E731
        expect = lambda x: ("ok", M.keygen(x.ljust(32, b"."), b"ki"))  # noqa: E731
    anchors = [b"anchor-0", b"anchor-1", bytes(32), b"\xff" * 32]
    return _lib.sweep(call, anchors, (b"distinct-%d" % j for j in range(n)), n, expect)


def shift_cases():
    """[(label, expected, observed)] one history: argument pairs whose concatenations coincide (bytes moved
    across the argument boundary, also around a zero byte), one after the other"""
    H = _h()
    S = getattr(importlib.import_module("py_ecc.bls"), "G2Basic")
    seed = bytes(range(1, 33))
    out = []
    for i, (s_, k_) in enumerate([(b"salt", b"ikm-ikm"), (b"salti", b"km-ikm"), (b"salt", b"ikm-ikm"), (b"", b"saltikm-ikm"),
                                  (b"saltikm-ikm", b""), (b"sal", b"tikm-ikm")]):
        out.append(("hkdf_extract call %d" % i, ("ok", M.extract(s_, k_)), _norm(_call(H.hkdf_extract, s_, k_))))
    for i, (p_, i_, n) in enumerate([(seed, b"info", 48), (seed + b"i", b"nfo", 48), (seed, b"info", 48), (seed, b"inf", 48),
                                     (seed, b"info", 49), (seed, b"info", 48), (seed + b"info", b"", 48)]):
        out.append(("hkdf_expand call %d" % i, ("ok", M.expand(p_, i_, n)), _norm(_call(H.hkdf_expand, p_, i_, n))))
    for i, (k_, ki) in enumerate([(seed + b"\x00validator", b"0"), (seed, b"validator\x000"), (seed + b"\x00validator", b"0"),
                                  (seed + b"ab", b"cd"), (seed + b"a", b"bcd"), (seed + b"abcd", b""), (seed + b"ab", b"cd"),
                                  (seed, b"\x00"), (seed + b"\x00", b""), (seed, b"")]):
        out.append(("KeyGen call %d" % i, ("ok", M.keygen(k_, ki)), _call(S.KeyGen, k_, ki)))
    return out


def replay_shift(a):
    for lbl, exp, got in shift_cases():
        if exp != got:
            return {"case": lbl, "expected": exp, "observed": got}
    return None


def long_case(which, n):
    """very long keying material / info at whole numbers of MiB and of 10^6 bytes (buffer sizes people pick)"""
    H = _h()
    big = (bytes(range(256)) * (n // 256 + 1))[:n]
    if which == "extract-ikm":
        return ("ok", M.extract(b"salt", big)), _norm(_call(H.hkdf_extract, b"salt", big))
    if which == "extract-salt":
        return ("ok", M.extract(big, b"ikm")), _norm(_call(H.hkdf_extract, big, b"ikm"))
    if which == "expand-info":
        return ("ok", M.expand(bytes(32), big, 48)), _norm(_call(H.hkdf_expand, bytes(32), big, 48))
    S = getattr(importlib.import_module("py_ecc.bls"), "G2Basic")
    return ("ok", M.keygen(big, b"")), _call(S.KeyGen, big, b"")


def task_long(a, env):
    r = R("hkdf:very-long-inputs")
    for which in a["whiches"]:
        for n in a["ns"]:
            exp, got = long_case(which, n)
            r.ev += 1
            r.dk.add((which, n))
            if exp != got:
                r.viol("C16:%s:very-long-input" % which, ME + ":replay_long", {"which": which, "n": n}, exp, got, note="%d bytes" % n)
    r.sample({"lengths": a["ns"][:6], "inputs": a["whiches"]})
    return r


def replay_long(a):
    exp, got = long_case(a["which"], a["n"])
    return None if exp == got else {"expected": exp, "observed": got}


def task_sweep(a, env):
    r = R("anchors-again-after-n-distinct-inputs")
    for i, (lbl, exp, got) in enumerate(shift_cases()):
        r.ev += 1
        if exp != got:
            r.viol("C16:%s:argument-boundary-shift" % lbl.split(" ")[0], ME + ":replay_shift", {}, exp, got, note=lbl)
            break
    for which in ("extract", "expand", "keygen"):
        n = a["n"] if which != "keygen" else a["n"] // 2
        bad = sweep_case(which, n)
        r.ev += n + 4 * 24
        r.dk.add(which)
        if bad:
            r.viol("C16:%s:stale-after-many-distinct" % which, ME + ":replay_sweep", {"which": which, "n": bad[0]}, bad[2], bad[3],
                   note="anchor %d after %d distinct inputs" % (bad[1], bad[0]))
    r.sample({"n": a["n"], "history": "f(a0..a3); f(d1); f(a0..a3); f(d2); f(a0..a3); ..."})
    return r


def replay_sweep(a):
    bad = sweep_case(a["which"], a["n"])
    return None if not bad else {"after": bad[0], "anchor": bad[1], "expected": bad[2], "observed": bad[3]}


def replay_mut(a):
    for step, exp, got in mut_case(a):
        if exp != got:
            return {"call": step, "expected": exp, "observed": got}
    return None


def replay(a):
    exp, got = {"extract": ex_case, "expand": xp_case, "keygen": kg_case}[a["f"]](a)
    return None if exp == got else {"expected": exp, "observed": got}


def run(ctx):
    ctx.rule = (
        "complete ranges of lengths (contents: zero / counting / seeded fills); one case per "
        "(function, lengths, fill); all distinct"
    )
    ctx.assumptions = ["hkdf_expand's result is compared as bytes(result) (it returns a bytearray: DESIGN 7 #8)",
                       "output lengths above 255*32 are outside the statement and not exercised"]
    q = ctx.quick
    lens = (list(range(0, 71)) + [127, 128, 129, 130, 255, 256, 257, 300]) if q else list(range(0, 301))
    fills = ["count", "zero"] if q else ["count", "zero", "ff", "seeded"]
    ctx.bounds = {"extract_lengths": "%d x %d" % (len(lens), len(lens)), "expand_L": "all of 0..8160",
                  "expand_info_grid": "info 0..300 x 12 L values",
                  "keygen": "IKM 0..128 x key_info 0..64 x %d fills x 3 suites" % (1 if q else 2)}
    tasks = []
    n = 8 if q else 30
    for i in range(n):
        tasks.append(("extract", {"rows": lens[i::n], "lens": lens, "fills": fills, "sample": i == 0}))
    Ls = list(range(0, 8161))
    n = 16
    for i in range(n):
        tasks.append(("expand", {"Ls": Ls[i::n], "linfos": [0, 7] if q else [0, 1, 7, 64], "fill": "count",
                                 "sample": i == 0}))
    grid_L = [0, 1, 31, 32, 33, 63, 64, 65, 96, 97, 255 * 32 - 1, 255 * 32]
    infos = list(range(0, 301)) if not q else list(range(0, 70)) + [127, 128, 255, 256, 300]
    for i in range(6):
        tasks.append(("expand", {"Ls": grid_L, "linfos": infos[i::6], "fill": "seeded"}))
    for prklen in (0, 1, 31, 33, 64, 65, 100):
        tasks.append(("expand", {"Ls": [0, 1, 32, 33, 64, 100, 8160], "linfos": [0, 3], "fill": "count",
                                 "prklen": prklen}))
    tasks.append(("mutated", {}))
    tasks.append(("sweep", {"n": 1200 if q else 20000}))
    mib = [k << 20 for k in range(1, 11)] + [k * 10 ** 6 for k in (1, 2, 5)] + [(6 << 20) - 1, (6 << 20) + 1, (3 << 20) - 1, 3 << 19, 65536, 65535]
    for i, wh in enumerate(("extract-ikm", "extract-salt", "expand-info", "keygen-ikm")):
        ns = mib if wh in ("extract-ikm", "keygen-ikm") else mib[::2]
        if wh == "keygen-ikm":
            ns = sorted(set(ns + [n - 1 for n in mib[:10]]))  # KeyGen appends one byte
        tasks.append(("long", {"whiches": [wh], "ns": ns if q else ns + [k << 20 for k in (12, 15, 16, 20)]}))
    for si, suite in enumerate(("G2Basic", "G2MessageAugmentation", "G2ProofOfPossession")):
        lis = list(range(0, 129)) if (si == 0 or not q) else [0, 1, 31, 32, 33, 64, 128]
        lks = list(range(0, 65)) if (si == 0 or not q) else [0, 1, 32, 64]
        for i in range(6):
            tasks.append(("keygen", {"suite": suite, "lis": lis[i::6], "lks": lks,
                                     "fills": ["count", "zero", "ff"] if (si == 0 or not q) else ["zero"],
                                     "sample": i == 0}))
    ctx.pmap(ME, tasks)

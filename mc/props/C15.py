"""C15 - expand_message_xmd and hash_to_field match RFC 9380 for all parameters.

Complete product: hash functions (Merkle-Damgard and sponge, digest 16..64 bytes, block 64..144)
x message lengths x tag lengths (incl. 255 / 256) x output lengths (every length up to 3 blocks
+ 1, the 255-block boundary, 65535/65536) against mc.model.h2c.expand_message_xmd (written from
RFC 9380 5.3.1, anchored to the RFC's appendix K vectors).  hash_to_field_FQ / _FQ2 for
counts 1..8 against the section 5.2 definition.
"""
import hashlib
import importlib

from ..core import R
from ..model import h2c

LEVEL = "exploration"
ME = "mc.props.C15"

HASHES = ["sha256", "sha512", "sha384", "sha3_256", "blake2b", "sha1", "sha224", "sha3_512", "blake2s",
          "md5", "sha3_224", "sha3_384"]


def _msg(n, salt=0):
    if n > 5000:  # long messages: a repeated 251-byte pattern (fast to build, not block-aligned)
        pat = bytes((i * 7 + salt) & 0xFF for i in range(251))
        return (pat * (n // 251 + 1))[:n]
    return bytes((i * 7 + salt) & 0xFF for i in range(n))


def _call(f, *a):
    try:
        return ("ok", f(*a))
    except Exception as e:  # noqa: BLE001
        return ("raise", type(e).__name__)


def xmd_case(a):
    Hm = importlib.import_module("py_ecc.bls.hash")
    msg, dst, n, hn = _msg(a["lm"], 1), _msg(a["ld"], 2), a["n"], a["h"]
    try:
        exp = ("ok", h2c.expand_message_xmd(msg, dst, n, hn))
    except ValueError:
        exp = ("raise",)
    got = _call(Hm.expand_message_xmd, msg, dst, n, getattr(hashlib, hn))
    if got[0] == "raise":
        got = ("raise",) if exp[0] == "raise" else got
    elif isinstance(got[1], (bytes, bytearray)):
        got = ("ok", bytes(got[1]))
    else:
        got = ("ok-nonbytes", repr(got[1])[:50])
    return exp, got


def task_xmd(a, env):
    hn = a["h"]
    r = R("expand_message_xmd:%s" % hn)
    d_ = hashlib.new(hn).digest_size
    for lm in a["lms"]:
        long_msg = lm > 5000  # long messages: the boundary subset of tags / lengths only
        for ld in (a["lds"] if not long_msg else [0, 32, 255, 256]):
            for n in (a["ns"] if not long_msg else [0, 1, d_, 2 * d_ + 1, 255 * d_, 255 * d_ + 1]):
                c = {"h": hn, "lm": lm, "ld": ld, "n": n}
                exp, got = xmd_case(c)
                r.ev += 1
                if exp != got:
                    if exp[0] == "raise":
                        cls = "must-refuse:" + ("tag>255" if ld > 255 else "len")
                    else:
                        d = hashlib.new(hn).digest_size
                        cls = "bytes-differ:blocks%s" % ("<=4" if n <= 4 * d else ">4")
                    r.viol("C15:xmd:%s:%s" % (hn, cls), ME + ":replay", dict(c, f="xmd"), exp, got)
        r.dn += (len(a["lds"]) * len(a["ns"])) if lm <= 5000 else 24
    if a.get("sample"):
        r.sample({"hash": hn, "msg_len": a["lms"][:4], "tag_len": a["lds"], "out_len": a["ns"][:5] + a["ns"][-5:]})
    return r


def h2f_case(a):
    HC = importlib.import_module("py_ecc.bls.hash_to_curve")
    msg, dst, hn, cnt, m = _msg(a["lm"], 3), _msg(a["ld"], 4), a["h"], a["count"], a["m"]
    try:
        exp = ("ok", h2c.hash_to_field(msg, cnt, dst, m, hn))
    except ValueError:
        exp = ("raise",)
    f = HC.hash_to_field_FQ if m == 1 else HC.hash_to_field_FQ2
    got = _call(f, msg, cnt, dst, getattr(hashlib, hn))
    if got[0] == "ok":
        try:
            if m == 1:
                vals = tuple(int(x.n) for x in got[1])
                red = all(0 <= int(x.n) < h2c.P for x in got[1])
            else:
                vals = tuple(tuple(int(c) for c in x.coeffs) for x in got[1])
                red = all(0 <= int(c) < h2c.P for x in got[1] for c in x.coeffs)
            got = ("ok", vals) if red else ("ok-unreduced", vals)
            if not isinstance(got[1], tuple) or not isinstance(a, dict):
                pass
        except Exception as e:  # noqa: BLE001
            got = ("ok-malformed", type(e).__name__)
    elif exp[0] == "raise":
        got = ("raise",)
    return exp, got


def task_h2f(a, env):
    r = R("hash_to_field:m=%d" % a["m"])
    for hn in a["hs"]:
        for lm in a["lms"]:
            for ld in a["lds"]:
                for cnt in a["counts"]:
                    c = {"h": hn, "lm": lm, "ld": ld, "count": cnt, "m": a["m"]}
                    exp, got = h2f_case(c)
                    r.ev += 1
                    r.dk.add((hn, lm, ld, cnt))
                    if exp != got:
                        r.viol("C15:hash_to_field:m=%d:%s" % (a["m"], "count<=2" if cnt <= 2 else "count>2"),
                               ME + ":replay", dict(c, f="h2f"), exp, got)
    r.sample({"m": a["m"], "hashes": a["hs"], "counts": a["counts"], "msg_len": a["lms"], "tag_len": a["lds"]})
    return r


def reuse_case(a):
    """one history: the same bytearray message / DST objects passed three times; the objects must be
    unchanged and every result the RFC value"""
    Hm = importlib.import_module("py_ecc.bls.hash")
    msg, dst = bytearray(_msg(a["lm"], 1)), bytearray(_msg(a["ld"], 2))
    m0, d0 = bytes(msg), bytes(dst)
    out = []
    for step in range(3):
        exp = ("ok", h2c.expand_message_xmd(m0, d0, a["n"], a["h"]))
        got = _call(Hm.expand_message_xmd, msg, dst, a["n"], getattr(hashlib, a["h"]))
        got = ("ok", bytes(got[1])) if got[0] == "ok" and isinstance(got[1], (bytes, bytearray)) else got
        if bytes(msg) != m0 or bytes(dst) != d0:
            got = ("arguments-mutated", [len(msg), len(dst)])
        out.append((step, exp, got))
    # the same contents as instances of a proper subclass of bytes (as hexbytes.HexBytes is)
    got = _call(Hm.expand_message_xmd, TaggedBytes(m0), TaggedBytes(d0), a["n"], getattr(hashlib, a["h"]))
    got = ("ok", bytes(got[1])) if got[0] == "ok" and isinstance(got[1], (bytes, bytearray)) else got
    out.append((3, ("ok", h2c.expand_message_xmd(m0, d0, a["n"], a["h"])), got))
    return out


class TaggedBytes(bytes):
    __slots__ = ()


def _param_hashes():
    import functools
    return [("blake2b(digest_size=32)", functools.partial(hashlib.blake2b, digest_size=32)),
            ("blake2b(digest_size=48)", functools.partial(hashlib.blake2b, digest_size=48)),
            ("blake2s(digest_size=16)", functools.partial(hashlib.blake2s, digest_size=16)),
            ("blake2b(digest_size=33)", functools.partial(hashlib.blake2b, digest_size=33)),
            ("blake2s(digest_size=30)", functools.partial(hashlib.blake2s, digest_size=30)),
            ("blake2b(digest_size=17)", functools.partial(hashlib.blake2b, digest_size=17)),
            ("blake2b(digest_size=63)", functools.partial(hashlib.blake2b, digest_size=63)),
            ("blake2b(key=...)", functools.partial(hashlib.blake2b, key=b"k" * 16)),
            ("blake2b(person=...)", functools.partial(hashlib.blake2b, person=b"py_ecc")),
            ("new('sha256')", functools.partial(hashlib.new, "sha256")),
            ("lambda sha384", lambda b=b"": hashlib.sha384(b))]


def _buffers(m0):
    """[(label, object)] the same bytes held in other buffer types the unmodified function hashes"""
    import array
    out = [("memoryview", memoryview(m0)), ("memoryview-of-bytearray", memoryview(bytearray(m0)))]
    if len(m0) and len(m0) % 2 == 0:
        out.append(("memoryview.cast('H')", memoryview(m0).cast("H")))
        out.append(("array('H')", array.array("H", m0)))
    if len(m0) and len(m0) % 8 == 0:
        out.append(("memoryview.cast('Q')", memoryview(m0).cast("Q")))
        out.append(("memoryview 2-D", memoryview(m0).cast("B", (len(m0) // 4, 4))))
    out.append(("array('B')", array.array("B", m0)))
    return out


def exotic_case(a):
    """[(label, expected, observed)]: parametrised hash constructors; message in other buffer types"""
    Hm = importlib.import_module("py_ecc.bls.hash")
    m0, d0, n = _msg(a["lm"], 1), _msg(a["ld"], 2), a["n"]
    out = []
    for lbl, hc in _param_hashes():
        exp = ("ok", h2c.expand_message_xmd(m0, d0, n, hc))
        got = _call(Hm.expand_message_xmd, m0, d0, n, hc)
        out.append(("hash=" + lbl, exp, ("ok", bytes(got[1])) if got[0] == "ok" and isinstance(got[1], (bytes, bytearray)) else got))
    exp = ("ok", h2c.expand_message_xmd(m0, d0, n, "sha256"))
    for lbl, buf in _buffers(m0):
        got = _call(Hm.expand_message_xmd, buf, d0, n, hashlib.sha256)
        got = ("ok", bytes(got[1])) if got[0] == "ok" and isinstance(got[1], (bytes, bytearray)) else got
        if got[0] == "raise":
            continue  # a buffer type the function does not take is outside the statement (byte strings)
        out.append(("message as " + lbl, exp, got))
    return out


def shift_cases():
    """[(label, expected, observed)] one history: (message, tag) pairs whose concatenations coincide, and
    (message, tag, length) triples that agree in two of three, one after the other"""
    Hm = importlib.import_module("py_ecc.bls.hash")
    H2 = importlib.import_module("py_ecc.bls.hash_to_curve")
    T = b"QUUX-V01-CS02"
    seq = [(b"abcdef", T, 32), (b"abc", b"def" + T, 32), (b"abcdef", T, 32), (b"", b"abcdef" + T, 32), (b"abcdef", T, 33),
           (b"abcdef", T, 32), (b"abcde", b"f" + T, 32), (b"abcdef" + T, b"", 32), (b"", b"", 32), (b"\x00", b"", 32), (b"", b"\x00", 32)]
    out = []
    for i, (m_, d_, n) in enumerate(seq):
        got = _call(Hm.expand_message_xmd, m_, d_, n, hashlib.sha256)
        got = ("ok", bytes(got[1])) if got[0] == "ok" and isinstance(got[1], (bytes, bytearray)) else got
        out.append(("xmd call %d" % i, ("ok", h2c.expand_message_xmd(m_, d_, n, "sha256")), got))
        o = _call(H2.hash_to_field_FQ2, m_, 1 + i % 2, d_, hashlib.sha256)
        o = ("ok", tuple(tuple(int(c) for c in e.coeffs) for e in o[1])) if o[0] == "ok" else o
        out.append(("hash_to_field_FQ2 call %d" % i, ("ok", h2c.hash_to_field(m_, 1 + i % 2, d_, 2, "sha256")), o))
    return out


def task_exotic(a, env):
    r = R("expand_message_xmd:parametrised-hashes-and-buffer-types")
    for i, (lbl, exp, got) in enumerate(shift_cases()):
        r.ev += 1
        r.dk.add(("shift", i))
        if exp != got:
            r.viol("C15:%s:argument-boundary-shift" % lbl.split(" ")[0], ME + ":replay_shift", {}, exp, got, note=lbl)
            break
    for (lm, ld, n) in ((3, 5, 40), (0, 0, 1), (16, 43, 100), (64, 255, 33), (1, 1, 0), (8, 8, 256)):
        c = {"lm": lm, "ld": ld, "n": n}
        for lbl, exp, got in exotic_case(c):
            r.ev += 1
            r.dk.add((lm, ld, n, lbl))
            if exp != got:
                r.viol("C15:xmd:%s" % ("parametrised-hash" if lbl.startswith("hash=") else "buffer-type"), ME + ":replay_exotic",
                       dict(c, label=lbl), exp, got, note=lbl)
    r.sample({"hash": "functools.partial(hashlib.blake2b, digest_size=32)", "message": "memoryview(b).cast('H')"})
    return r


def sweep_case(which, n):
    """anchors again after n calls on pairwise distinct messages (lib.sweep); expected = the RFC model"""
    from .. import lib as _lib
    Hm = importlib.import_module("py_ecc.bls.hash")
    H2 = importlib.import_module("py_ecc.bls.hash_to_curve")
    dst = b"QUUX-V01-CS02-sweep"
    if which == "xmd":
        call = lambda m_: _call(lambda: bytes(Hm.expand_message_xmd(m_, dst, 48, hashlib.sha256)))  # noqa: E731
        expect = lambda m_: ("ok", h2c.expand_message_xmd(m_, dst, 48, "sha256"))  # noqa: E731
    else:
        def call(m_):
            o = _call(H2.hash_to_field_FQ2, m_, 2, dst, hashlib.sha256)
            return ("ok", tuple(tuple(int(c) for c in e.coeffs) for e in o[1])) if o[0] == "ok" else o
        expect = lambda m_: ("ok", h2c.hash_to_field(m_, 2, dst, 2, "sha256"))  # noqa: E731
    anchors = [b"", b"abc", b"anchor-2", bytes(64)]
    distinct = (b"distinct-%d" % j for j in range(n))
    return _lib.sweep(call, anchors, distinct, n, expect)


def task_sweep(a, env):
    r = R("anchors-again-after-n-distinct-messages")
    for which in ("xmd", "hash_to_field_FQ2"):
        bad = sweep_case(which, a["n"])
        r.ev += a["n"] + 4 * 24
        r.dk.add(which)
        if bad:
            r.viol("C15:%s:stale-after-many-distinct" % which, ME + ":replay_sweep", {"which": which, "n": bad[0]}, bad[2], bad[3],
                   note="anchor %d after %d distinct messages" % (bad[1], bad[0]))
    r.sample({"n": a["n"], "history": "f(a0..a3); f(d1); f(a0..a3); f(d2); f(a0..a3); f(d3); ..."})
    return r


def replay_sweep(a):
    bad = sweep_case(a["which"], a["n"])
    return None if not bad else {"after": bad[0], "anchor": bad[1], "expected": bad[2], "observed": bad[3]}


def helper_cases():
    """[(label, expected, observed)] the conversion helpers the expansions are built from, on complete small
    ranges: i2osp (RFC 8017 4.1: "integer too large" must be refused), os2ip, xor of equal-length strings"""
    Hm = importlib.import_module("py_ecc.bls.hash")
    out = []
    f = getattr(Hm, "i2osp", None)
    if f is not None:
        for xlen in list(range(0, 5)) + [48, 64]:
            top = 256 ** xlen
            xs = sorted({0, 1, 255, 256, 257, 65535, 65536, top - 1, top, top + 1, top // 2, top // 256, 2 ** 61 - 1} | set(range(0, 300, 7)))
            for x in xs:
                exp = ("ok", x.to_bytes(xlen, "big")) if 0 <= x < top else ("raise", None)
                got = _call(f, x, xlen)
                got = ("ok", bytes(got[1])) if got[0] == "ok" and isinstance(got[1], (bytes, bytearray)) else (("raise", None) if got[0] == "raise" else got)
                out.append(("i2osp(%s, %d)" % (hex(x), xlen), exp, got))
        out.append(("i2osp(-1, 2)", ("raise", None), ("raise", None) if _call(f, -1, 2)[0] == "raise" else "accepted"))
    g = getattr(Hm, "os2ip", None)
    if g is not None:
        for b in [b"", b"\x00", b"\x00\x01", b"\xff" * 48, bytes(range(64)), b"\x80" + bytes(31), bytes(31) + b"\x01"]:
            out.append(("os2ip(%d bytes)" % len(b), ("ok", int.from_bytes(b, "big")), _call(g, b)))
    x = getattr(Hm, "xor", None)
    if x is not None:
        for n in list(range(0, 70)) + [128, 255]:
            for (a_, b_) in ((_msg(n, 1), _msg(n, 2)), (bytes(n), _msg(n, 3)), (b"\x00" + _msg(n, 4)[1:], b"\x00" + _msg(n, 5)[1:]) if n else (b"", b""),
                             (b"\xff" * n, b"\xff" * n)):
                got = _call(x, a_, b_)
                got = ("ok", bytes(got[1])) if got[0] == "ok" and isinstance(got[1], (bytes, bytearray)) else got
                out.append(("xor(%d bytes)" % n, ("ok", bytes(u ^ v for u, v in zip(a_, b_))), got))
    return out


def task_helpers(a, env):
    r = R("i2osp/os2ip/xor")
    for i, (lbl, exp, got) in enumerate(helper_cases()):
        r.ev += 1
        r.dk.add((lbl, i))
        if exp != got:
            r.viol("C15:helper:%s" % lbl.split("(")[0], ME + ":replay_helpers", {"i": i}, exp, got, note=lbl)
    r.sample({"i2osp": "x around 256^xlen for xlen in 0..4, 48, 64", "xor": "lengths 0..69, 128, 255 incl. leading zero bytes"})
    return r


def replay_helpers(a):
    lbl, exp, got = helper_cases()[a["i"]]
    return None if exp == got else {"case": lbl, "expected": exp, "observed": got}


def replay_shift(a):
    for lbl, exp, got in shift_cases():
        if exp != got:
            return {"case": lbl, "expected": exp, "observed": got}
    return None


def replay_exotic(a):
    for lbl, exp, got in exotic_case(a):
        if lbl == a["label"] and exp != got:
            return {"case": lbl, "expected": exp, "observed": got}
    return None


def task_xmd_reuse(a, env):
    r = R("expand_message_xmd:bytearray-arguments-reused")
    for hn in a["hs"]:
        for (lm, ld, n) in ((3, 5, 40), (0, 0, 1), (70, 255, 100), (1, 1, 0)):
            c = {"h": hn, "lm": lm, "ld": ld, "n": n}
            for step, exp, got in reuse_case(c):
                r.ev += 1
                r.dk.add((hn, lm, ld, n, step))
                if exp != got:
                    r.viol("C15:xmd:bytearray-reuse:%s" % ("mutated" if got[0] == "arguments-mutated" else "wrong-bytes"),
                           ME + ":replay_reuse", c, exp, got, note="call %d of 4" % step)
                    break
    r.sample({"sequence": "expand_message_xmd(bytearray msg, bytearray DST) x 3 on the same objects", "hashes": a["hs"]})
    return r


def replay_reuse(a):
    for step, exp, got in reuse_case(a):
        if exp != got:
            return {"call": step, "expected": exp, "observed": got}
    return None


def pair_case(a):
    """one history: the same inputs under hash h1, then h2, then h1 again"""
    out = []
    for hn in (a["h1"], a["h2"], a["h1"]):
        exp, got = xmd_case({"h": hn, "lm": a["lm"], "ld": a["ld"], "n": a["n"]})
        out.append((hn, exp, got))
    return out


def task_xmd_pairs(a, env):
    r = R("expand_message_xmd:hash-function-sequences")
    for h1 in a["h1s"]:
        for h2 in a["h2s"]:
            if h1 == h2:
                continue
            for (lm, ld, n) in ((3, 5, 40), (0, 0, 1), (200, 255, 300)):
                c = {"h1": h1, "h2": h2, "lm": lm, "ld": ld, "n": n}
                res = pair_case(c)
                r.ev += 3
                r.dk.add((h1, h2, lm))
                for i, (hn, exp, got) in enumerate(res):
                    if exp != got:
                        r.viol("C15:xmd:sequence:%s" % ("same-block-size" if hashlib.new(h1).block_size ==
                                                        hashlib.new(h2).block_size else "other"), ME + ":replay_pair", c, exp, got,
                               note="step %d (%s) of %s,%s,%s" % (i, hn, h1, h2, h1))
                        break
    r.sample({"sequence": "xmd under h1, then h2, then h1 on equal inputs", "h1": a["h1s"], "h2": a["h2s"][:4]})
    return r


def replay_pair(a):
    for i, (hn, exp, got) in enumerate(pair_case(a)):
        if exp != got:
            return {"step": i, "hash": hn, "expected": exp, "observed": got}
    return None


def replay(a):
    exp, got = (xmd_case if a["f"] == "xmd" else h2f_case)(a)
    return None if exp == got else {"expected": exp, "observed": got}


def run(ctx):
    ctx.rule = ("complete product hash x message length x tag length x output length; one case per "
                "tuple, all distinct (contents are counting-byte patterns)")
    ctx.assumptions = ["'refuses by raising': any exception type and no return value (DESIGN 7 #11)",
                       "hash functions are passed as hashlib constructors, as the suites do"]
    q = ctx.quick
    hashes = HASHES
    lms_q = [0, 1, 31, 32, 33, 55, 56, 63, 64, 65, 111, 112, 119, 120, 127, 128, 129, 135, 136, 137, 255, 256,
             1000, 4096, 65535, 65536, 70001]
    lms = lms_q if q else list(range(0, 131)) + [135, 136, 137, 143, 144, 145, 191, 192, 255, 256, 257, 1000, 4096,
                                                  65535, 65536, 70001, 200000]
    lds = [0, 1, 2, 31, 32, 33, 254, 255, 256, 300]
    ctx.bounds = {"hashes": hashes, "message_lengths": len(lms), "tag_lengths": lds,
                  "output_lengths": "0..3*digest+1, 255*digest-1..+1, 65535, 65536"}
    tasks = []
    for hn in hashes:
        d = hashlib.new(hn).digest_size
        ns = list(range(0, 3 * d + 2)) + [4 * d, 5 * d, 6 * d + 1, 7 * d, 8 * d - 1, 100 * d + 3, 255 * d - 1,
                                          255 * d, 255 * d + 1, 65535, 65536]
        split = 4 if q else 8
        for i in range(split):
            tasks.append(("xmd", {"h": hn, "lms": lms[i::split], "lds": lds, "ns": ns, "sample": i == 0}))
    for h1 in hashes:
        tasks.append(("xmd_pairs", {"h1s": [h1], "h2s": hashes}))
    tasks.append(("xmd_reuse", {"hs": ["sha256", "sha512", "sha3_256"]}))
    tasks.append(("exotic", {}))
    tasks.append(("helpers", {}))
    tasks.append(("sweep", {"n": 1200 if q else 20000}))
    # very long messages at power-of-two sizes (chunked / streamed hashing boundaries)
    for hn in ("sha256", "sha512"):
        for lm in ([1 << 20, (1 << 22) - 1, 1 << 22, (1 << 22) + 1, 1 << 23] + ([] if q else [1 << 24, 3 << 22])):
            tasks.append(("xmd", {"h": hn, "lms": [lm], "lds": [5], "ns": [32]}))
    # ... and at every whole number of MiB / of 10^6 bytes up to 10 (buffer sizes people pick), with neighbours
    mib = [k << 20 for k in (2, 3, 5, 6, 7, 9, 10)] + [k * 10 ** 6 for k in (1, 2, 5)] + [(6 << 20) - 1, (6 << 20) + 1, 3 << 19]
    for lm in mib if q else mib + [k << 20 for k in (11, 12, 15, 16, 20)]:
        tasks.append(("xmd", {"h": "sha256", "lms": [lm], "lds": [5], "ns": [32]}))
    # counts at each hash's own 255-block limit (L = 64 bytes per coordinate)
    for m in (1, 2):
        for hn in ("sha256", "sha512", "sha384", "sha1", "sha3_512"):
            d = hashlib.new(hn).digest_size
            lim = (255 * d) // (64 * m)
            cs = sorted(set(c for c in (lim - 1, lim, lim + 1, 127 // m, 128 // m, 129 // m + 1, 255 // m, 256 // m + 1) if c >= 0))
            tasks.append(("h2f", {"m": m, "hs": [hn], "lms": [3], "lds": [5], "counts": cs}))
    for m in (1, 2):
        for hs in (["sha256"], ["sha512", "sha3_256"], ["sha1", "blake2b"] if not q else ["sha1"]):
            tasks.append(("h2f", {"m": m, "hs": hs, "lms": [0, 3, 16, 64, 128, 1000], "lds": [0, 1, 43, 255, 256],
                                  "counts": list(range(0, 9))}))
    ctx.pmap(ME, tasks)

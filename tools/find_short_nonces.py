import sys, json, multiprocessing as mp
sys.path.insert(0,'/verif')
from mc.model import ecdsa
import hashlib
def work(args):
    lo, hi = args
    out=[]
    priv=(0x1B2C3D4E5F60718293A4B5C6D7E8F9A0B1C2D3E4F5061728394A5B6C7D8E9F01).to_bytes(32,'big')
    for i in range(lo,hi):
        h=hashlib.sha256(b"msg-%d" % i).digest()
        k=ecdsa.nonce(h, priv)
        if k >> 232 == 0:
            out.append((priv.hex(), h.hex(), i, k.bit_length()))
    return out
if __name__=="__main__":
    N=int(sys.argv[1]) if len(sys.argv) > 1 else 60000000; step=20000
    with mp.Pool(10) as p:
        res=[]
        for r in p.imap_unordered(work, [(a,min(N,a+step)) for a in range(0,N,step)]):
            res+=r
            if len(res)>=2: break
    print(json.dumps(res))

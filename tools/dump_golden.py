#!/venv/bin/python
"""One-time snapshot of the constants that cannot be derived from first principles (RFC 9380
appendix E isogeny coefficient tables and the SSWU curve coefficients A', B' of the G1 suite)
from the pinned py_ecc tree into golden/constants.json.  The snapshot is *validated* by
mc.model.h2c.selfcheck() (E' has the order of E, the maps send E' to E and are additive, RFC
9380 test vectors) - it is not trusted because it was copied."""
import json, os
from py_ecc.optimized_bls12_381 import constants as C
ROOT = os.path.dirname(os.path.dirname(os.path.abspath(__file__)))
def fq(x): return int(x.n) if hasattr(x, "n") else int(x)
def fq2(x): return [int(x.coeffs[0]), int(x.coeffs[1])]
out = {
 "ISO_11_A": fq(C.ISO_11_A), "ISO_11_B": fq(C.ISO_11_B),
 "ISO_11_MAP": [[fq(c) for c in row] for row in C.ISO_11_MAP_COEFFICIENTS],
 "ISO_3_MAP": [[fq2(c) for c in row] for row in C.ISO_3_MAP_COEFFICIENTS],
}
json.dump(out, open(os.path.join(ROOT, "golden", "constants.json"), "w"), indent=1)
print({k: (len(v) if isinstance(v, list) else v.bit_length()) for k, v in out.items()}, [len(r) for r in out["ISO_11_MAP"]], [len(r) for r in out["ISO_3_MAP"]])

#!/opt/veriftools/pyvenv/bin/python
"""Validate MANIFEST.json and evidence/*.json against the given schemas (tooling venv)."""
import glob, json, sys
import jsonschema
ok = True
m = json.load(open("/verif/MANIFEST.json"))
jsonschema.validate(m, json.load(open("/root/.vp/MANIFEST.schema.json")))
print("MANIFEST ok: %d checks, %d not_applicable" % (len(m["checks"]), len(m.get("not_applicable", []))))
es = json.load(open("/root/.vp/EVIDENCE.schema.json"))
for f in sorted(glob.glob("/verif/evidence/*.json")):
    try:
        jsonschema.validate(json.load(open(f)), es)
        print("evidence ok:", f)
    except Exception as e:
        ok = False
        print("evidence INVALID:", f, str(e)[:300])
sys.exit(0 if ok else 1)

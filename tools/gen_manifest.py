#!/usr/bin/env python3
"""Regenerates /verif/MANIFEST.json from the table below + the set of implemented checks
(mc/props/<ID>.py).  Properties without a check module are listed under not_applicable
with the reason 'not yet built' until their check exists (kept current by re-running)."""
import json
import os

ROOT = os.path.dirname(os.path.dirname(os.path.abspath(__file__)))

T = {
 "C01": ("exploration", "6 C01 + 13.1", "bounded exhaustive exploration: all (key, message) tuples within one deviation of a default over boundary alphabets (bit-length sweep, all-ones, leading-byte-of-p encodings, own-pk and >64 KiB messages) x 3 suites, each case a short call history; rejected keys/types enumerated completely",
         "Every (suite, key, message) of the stated alphabet is signed and verified by the real code; rejected keys/types enumerated completely. Complete over the alphabet, not over all 2^255 keys.",
         "alphabets of DESIGN 6/C01; ladder correctness for all scalars is covered on small curves by C07"),
 "C02": ("exploration", "6 C02 + 13.1", "bounded exhaustive enumeration of model-built candidate signatures (other key/message/suite/tag, -S, 2S, S+torsion, re-encodings, bit flips) as histories (honest signature first and last, refused strings presented twice, caller-chosen tags) with an analytic oracle",
         "Verify/PopVerify run on every member of the candidate domain; expected verdict = byte equality with an independent model signature.",
         "independent BLS model (mc.model.bls) anchored to published vectors"),
 "C03": ("model_checking", "6 C03 + 13.1", "explicit-state exploration of aggregation states (multisets of (signer,message) incl. coincident and cancelling signers), every permutation/grouping, every single-element deviation and cross-suite histories, lock-step with a formal-vector reference model",
         "States = multisets of (signer, message) up to the bound; every transition executed on the real Aggregate/AggregateVerify/FastAggregateVerify and on the reference model.",
         "linear independence of distinct hash points over Z_r (probability of failure ~2^-255)"),
 "C04": ("exploration", "6 C04 + 13.1", "deviation-bounded enumeration of byte strings (length classes x 8 flag combinations x coordinate classes x list positions, cancelling keys / torsion, identity variants) over 5 entry points x 3 suites with a model-checked pairing-argument monitor",
         "All five verification entry points of three suites run on every member of the byte-string domain; outcome must be a bool, False unless the model decodes a valid subgroup point; the monitor checks every pairing argument.",
         "zcash / ec reference models; byte strings outside the class grid are not covered"),
 "C05": ("exploration", "6 C05", "exhaustive enumeration of scalar grids at full size and of whole groups on tiny pairing curves (same function bodies via the configuration loader)",
         "Bilinearity law checked on complete scalar grids for the four modules and on every element pair of the order-13 group of a tiny BLS12 curve plus large grids on tiny BN/BLS curves.",
         "tiny-curve verdicts transfer because the pairing code is generic in its constants (DESIGN 5.3)"),
 "C06": ("exploration", "6 C06", "exhaustive enumeration: every key x hash class on tiny prime-order curves (loader) + complete alphabet product at full size, against an independent ECDSA model",
         "All d in [1,N-1] x hash classes on small curves; full-size product of boundary alphabets; model nonce per the statement.",
         "ecdsa model anchored to the RFC6979 secp256k1 vector"),
 "C07": ("model_checking", "6 C07", "explicit-state exhaustive exploration: all points x all pairs x all projective representatives x all scalars of every tiny curve, lock-step with an affine reference model; complete alphabet products at full size",
         "States = points of each tiny curve (every one visited), transitions = add/double/neg/multiply/eq applications, each executed on the real functions and on the model; full-size alphabets for magnitude effects; constants vs derived parameters.",
         "reference models mc.model.zp/ec (self-checked exhaustively); DESIGN 5.3 transfer argument"),
 "C08": ("model_checking", "6 C08", "exhaustive enumeration of all elements / pairs / triples of tiny fields (every irreducible quadratic, degree-12 extensions of GF(2), GF(3)) against a reference model; alphabet products at full size",
         "Field axioms and model agreement on complete tiny fields instantiated by subclassing; full-size boundary alphabets incl. exponents >= 2^4400.",
         "zp model"),
 "C09": ("exploration", "6 C09", "differential enumeration of keys x messages x suites against an independent implementation anchored by published vectors",
         "Byte equality of SkToPk/Sign/PopProve/Aggregate with the independent model over the complete alphabet product.",
         "independent model + published Ethereum / EIP-2333 / RFC 9380 vectors"),
 "C10": ("exploration", "6 C10", "exhaustive grid of field elements u (all small-norm u, exceptional and special u, every square-root branch) and complete message x tag x hash product against a straight-line RFC 9380 model",
         "map_to_curve on a complete grid with measured branch coverage; hash_to_G1/G2 on the full product; subgroup membership by the ec model.",
         "h2c model anchored to RFC 9380 vectors; golden isogeny constants validated algebraically"),
 "C11": ("exploration", "6 C11", "exhaustive enumeration of flag combinations x coordinate classes x second-word classes and of special points in every representative, against a ZCash-format model; decoder call histories (words with equal hash(), anchors decoded again after up to n distinct encodings)",
         "Both directions of the codec on complete class products; accepted words must re-compress to themselves.",
         "zcash model"),
 "C12": ("exploration", "6 C12", "exhaustive comparison of reference and optimized pairings on whole tiny groups (loader) and on scalar alphabets at full size; all multisets of Miller values up to the bound; long pairing histories (anchors again after n distinct pairings)",
         "Coefficient equality reference vs optimized; split final exponentiation and Frobenius shortcut vs plain powers.",
         "zp model for plain powers"),
 "C13": ("model_checking", "6 C13", "exhaustive enumeration of all coordinate tuples GF(p)^6 / GF(p)^3 per control path on small fields (decides the polynomial identities by root counting), against the affine law",
         "Every coordinate tuple of complete small grids is executed through the real add/double/neg/eq/is_on_curve/linefunc/jacobian_* bodies; per-variable degree < p makes the grid a complete argument.",
         "affine model; degree bounds stated in DESIGN 6/C13"),
 "C14": ("model_checking", "6 C14", "complete operator tables on tiny fields (hence all straight-line programs, by induction over table edges) + breadth-first closure by value at full size, reference vs optimized in lock-step",
         "Every unary/binary operator entry of both class families compared on complete tiny fields; BFS to depth 2 (3) at full size.",
         "inductive argument of DESIGN 6/C14; RFC 9380 sgn0 model"),
 "C15": ("exploration", "6 C15", "complete product of hash functions x message lengths x tag lengths x output lengths against an RFC 9380 model",
         "expand_message_xmd / hash_to_field on the full boundary product.", "RFC 9380 model anchored to RFC vectors"),
 "C16": ("exploration", "6 C16", "complete ranges of salt/IKM/info/output lengths against RFC 5869 and draft-v4 KeyGen models",
         "All lengths in the stated ranges.", "HMAC/HKDF model written from RFC 2104/5869; EIP-2333 anchor"),
 "C17": ("model_checking", "6 C17", "exhaustive enumeration of every point and representative of small composite-order curves through the real subgroup_check body; every prime-order torsion component at full size",
         "subgroup_check verdict vs model order on all points of ~30 curves; full-size torsion alphabet; cofactor constants vs derived values.",
         "ec model; curve_order rebinding in a dedicated worker"),
 "C18": ("model_checking", "6 C18", "exhaustive enumeration of all point pairs and all scalars in [-2N-1, 3N+1] on tiny prime-order curves (loader) + alphabet products at full size",
         "secp256k1 add/multiply vs the affine model on complete small groups.", "ec model; SEC 2 constants"),
 "C19": ("model_checking", "6 C19", "exhaustive enumeration of every (v, r, s, z) on tiny curves (loader) + complete alphabet product at full size against the recovery algebra",
         "ecdsa_raw_recover outcome (point or ValueError) vs model on every tuple.", "ecdsa model"),
 "C20": ("model_checking", "6 C20 + 13.1", "explicit-state exploration of call histories over a 174-operation alphabet: every operation alone in a fresh interpreter, adjacent ordered pairs, total orders, systematically generated one-argument-perturbed neighbour calls, operation again after n distinct variant calls, two-thread one-preemption interleavings at the change points of lazily built module state, fresh interpreters under -O; canonical snapshot of constants, argument snapshots and result equality with the fresh interpreter after every call",
         "State = canonical snapshot of all py_ecc module and class data; every public operation is a transition; results compared with fresh-interpreter results.",
         "snapshot completeness is guarded by the pair/triple result comparison"),
}


def main():
    props = [json.loads(l) for l in open(os.path.join(ROOT, "properties.jsonl"))]
    checks, na = [], []
    for p in props:
        pid = p["id"]
        if os.path.exists(os.path.join(ROOT, "mc", "props", pid + ".py")):
            cat, ref, tech, text, note = T[pid]
            checks.append({
                "property_id": pid,
                "quick_cmd": "./check %s --tier quick" % pid,
                "thorough_cmd": "./check %s --tier thorough" % pid,
                "evidence_file": "/verif/evidence/%s.json" % pid,
                "replay_cmd_template": "./check %s --replay {path}" % pid,
                "engine": "mc",
                "level_claimed": {"category": cat, "text": text, "design_ref": "DESIGN.md section " + ref},
                "level_note": note,
                "technique": tech,
            })
        else:
            na.append({"property_id": pid, "reason": "check not built yet (work in progress; see DESIGN.md section 12)"})
    m = {
        "version": 1,
        "setup_cmd": "cd /verif && /venv/bin/python -m mc.setup",
        "hooks": {
            "guard": "PY_ECC_VERIF",
            "enable": "no hooks are needed: the checks import /repo's working tree directly (editable install) and substitute constants with an AST loader",
            "baseline_off_cmd": "cd /repo && /venv/bin/python -m pytest -ra -q -p no:cacheprovider --timeout=900 --continue-on-collection-errors",
            "source_commits": [],
            "add_only": True,
        },
        "engines": [{
            "name": "mc", "path": "/verif/mc",
            "serves_properties": [c["property_id"] for c in checks],
            "kind_free_text": "hand-written bounded exhaustive explorer (Python): small-configuration exhaustion, full-size alphabet products / deviation bounding, explicit-state BFS with lock-step reference models",
        }],
        "checks": checks,
        "notes": "All checks: ./check <ID> [--tier quick|thorough]; honours VERIF_SEED / VERIF_TIER; known findings in /verif/known_findings.json.",
        "not_applicable": na,
    }
    with open(os.path.join(ROOT, "MANIFEST.json"), "w") as f:
        json.dump(m, f, indent=1)
        f.write("\n")
    print("checks:", [c["property_id"] for c in checks], "pending:", [n["property_id"] for n in na])


if __name__ == "__main__":
    main()

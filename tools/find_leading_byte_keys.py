#!/venv/bin/python
"""Search (model only) the smallest secret keys whose public key / signature encodings have a
coordinate with the leading byte of p (0x1a): x(pk), and x.c1 / x.c0 of the signature of b"abc" in
the basic and PoP suites.  Written to golden/leading_byte_keys.json; mc.props.blslib validates
each entry with the model before using it."""
import json, os, sys
sys.path.insert(0, os.path.dirname(os.path.dirname(os.path.abspath(__file__))))
from mc.model import bls as MB, params, zcash
E1, E2 = zcash.E1, zcash.E2
B = 0x1A << 376
out = {}
Pt = None
G = params.bls_g1()
for k in range(1, 200000):
    Pt = E1.add(Pt, G)
    if Pt[0] >= B:
        out["pk"] = k
        break
for suite in ("basic", "pop"):
    H = MB.hash_point(b"abc", MB.DST[suite])
    Pt = None
    need = {"c1", "c0"}
    for k in range(1, 400000):
        Pt = E2.add(Pt, H)
        if "c1" in need and Pt[0][1] >= B:
            out["sig:%s:c1" % suite] = k; need.discard("c1")
        if "c0" in need and Pt[0][0] >= B:
            out["sig:%s:c0" % suite] = k; need.discard("c0")
        if not need:
            break
json.dump(out, open(os.path.join(os.path.dirname(os.path.dirname(os.path.abspath(__file__))), "golden", "leading_byte_keys.json"), "w"), indent=1)
print(out)

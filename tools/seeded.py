#!/venv/bin/python
"""Confirm and evaluate one seeded property-breaking change delivered by a sub-agent.

usage: tools/seeded.py <out_dir> <k> <name> <property> [check ids ...] [--skip-baseline]

1. confirmation in a scratch worktree (outside /repo and /verif, removed afterwards): the diff
   applies to a clean checkout; the pinned test suite still passes exactly the baseline set; the
   demonstration exits 0 on the clean tree and non-zero with the change.
2. evaluation: the diff is applied to /repo, the listed checks' quick commands are run, and /repo
   is restored (git checkout -- .) straight afterwards.
3. /verif/seeded/<name>/{patch.diff, demo.py, meta.json} are written.
"""
import json
import os
import shutil
import subprocess
import sys
import time

VERIF = os.path.dirname(os.path.dirname(os.path.abspath(__file__)))


def sh(cmd, **kw):
    return subprocess.run(cmd, capture_output=True, text=True, **kw)


def main():
    args = [a for a in sys.argv[1:] if not a.startswith("--")]
    skip_base = "--skip-baseline" in sys.argv
    confirm_only = "--confirm-only" in sys.argv
    out_dir, k, name, prop = args[:4]
    checks = args[4:] or [prop]
    diff = os.path.join(out_dir, "change%s.diff" % k)
    demo = os.path.join(out_dir, "demo%s.py" % k)
    notes = json.load(open(os.path.join(out_dir, "notes%s.json" % k)))
    meta = {"name": name, "property": prop, "what": notes.get("what"), "needs": notes.get("needs"),
            "files": notes.get("files"), "source": "independent sub-agent given only the property text"}
    wt = "/tmp/seedverify_%s" % name
    sh(["git", "-C", "/repo", "worktree", "remove", "--force", wt])
    r = sh(["git", "-C", "/repo", "worktree", "add", "--detach", wt, "HEAD"])
    assert r.returncode == 0, r.stderr
    try:
        env = dict(os.environ, PYTHONPATH=wt, PYTHONDONTWRITEBYTECODE="1")
        d0 = sh(["/venv/bin/python", demo], env=env, cwd=wt, timeout=1800)
        meta["demo_clean_rc"] = d0.returncode
        a = sh(["git", "-C", wt, "apply", diff])
        meta["applies"] = a.returncode == 0
        assert a.returncode == 0, a.stderr
        d1 = sh(["/venv/bin/python", demo], env=env, cwd=wt, timeout=1800)
        meta["demo_changed_rc"] = d1.returncode
        meta["demo_changed_tail"] = (d1.stdout + d1.stderr)[-300:]
        if not skip_base:
            b = sh([os.path.join(VERIF, "tools", "baseline.py"), wt, "-n", "8"], timeout=3600)
            meta["baseline"] = b.stdout.strip().splitlines()[0] if b.stdout else b.stderr[-200:]
            meta["baseline_ok"] = b.returncode == 0
        else:
            meta["baseline"] = notes.get("baseline")
            meta["baseline_ok"] = None
    finally:
        sh(["git", "-C", "/repo", "worktree", "remove", "--force", wt])
        shutil.rmtree(wt, ignore_errors=True)
    if confirm_only:
        # evaluation against /repo is left to tools/reseed.py (serial, final machinery)
        dst = os.path.join(VERIF, "seeded", name)
        os.makedirs(dst, exist_ok=True)
        shutil.copy(diff, os.path.join(dst, "patch.diff"))
        shutil.copy(demo, os.path.join(dst, "demo.py"))
        meta["candidate_checks"] = checks
        meta["ran"] = ("scratch worktree: demo on clean tree (rc %s), git apply, demo with change (rc %s), pinned suite via "
                       "tools/baseline.py (%s); checks run against /repo by tools/reseed.py"
                       % (meta["demo_clean_rc"], meta["demo_changed_rc"], meta["baseline"]))
        json.dump(meta, open(os.path.join(dst, "meta.json"), "w"), indent=1)
        print(json.dumps({k: meta[k] for k in ("name", "demo_clean_rc", "demo_changed_rc", "baseline")}))
        return
    # evaluation against /repo itself
    st = sh(["git", "-C", "/repo", "status", "--porcelain"])
    assert st.stdout.strip() == "", "/repo not clean: " + st.stdout
    res = {}
    a = sh(["git", "-C", "/repo", "apply", diff])
    assert a.returncode == 0, a.stderr
    try:
        for c in checks:
            t = time.time()
            p = sh([os.path.join(VERIF, "check"), c, "--tier", "quick"], timeout=7200)
            lines = [l for l in p.stdout.splitlines() if l.startswith(("VIOLATION", "violation key", "HARNESS", "FLAKY"))]
            res[c] = {"rc": p.returncode, "wall_s": round(time.time() - t, 1), "lines": [l[:300] for l in lines[:6]]}
    finally:
        sh(["git", "-C", "/repo", "checkout", "--", "."])
    meta["checks_quick"] = res
    meta["detected_by"] = [c for c, v in res.items() if v["rc"] == 1]
    dst = os.path.join(VERIF, "seeded", name)
    os.makedirs(dst, exist_ok=True)
    shutil.copy(diff, os.path.join(dst, "patch.diff"))
    shutil.copy(demo, os.path.join(dst, "demo.py"))
    meta["ran"] = ("scratch worktree: demo on clean tree (rc %s), git apply, demo with change (rc %s), pinned suite via "
                   "tools/baseline.py (%s); then applied to /repo, ran quick checks %s, reverted"
                   % (meta["demo_clean_rc"], meta["demo_changed_rc"], meta["baseline"], checks))
    json.dump(meta, open(os.path.join(dst, "meta.json"), "w"), indent=1)
    print(json.dumps({k: meta[k] for k in ("name", "demo_clean_rc", "demo_changed_rc", "baseline", "detected_by")}))
    for c, v in res.items():
        print(c, v["rc"], v["wall_s"], *v["lines"][:3], sep="\n   ")


if __name__ == "__main__":
    main()

#!/usr/bin/env python3
"""Apply a one-line textual mutation to /repo, run checks, revert.
usage: tools/mutate.py FILE 'OLD' 'NEW' ID [ID...]   (FILE relative to /repo; OLD must be unique unless --nth k)"""
import subprocess, sys
args = sys.argv[1:]
nth = None
if args[0] == "--nth":
    nth = int(args[1]); args = args[2:]
f, old, new, ids = args[0], args[1], args[2], args[3:]
p = "/repo/" + f
s = open(p).read()
c = s.count(old)
if c == 0 or (c != 1 and nth is None):
    print("pattern count", c); sys.exit(3)
if nth is None:
    s2 = s.replace(old, new)
else:
    parts = s.split(old)
    s2 = old.join(parts[:nth + 1]) + new + old.join(parts[nth + 1:])
open(p, "w").write(s2)
try:
    for i in ids:
        if i == "TESTS":
            r = subprocess.run(["/verif/tools/baseline.py", "/repo", "-n", "14"], capture_output=True, text=True)
            print("TESTS rc=%d %s" % (r.returncode, r.stdout.strip().splitlines()[0] if r.stdout else r.stderr[-300:]))
            continue
        r = subprocess.run(["/verif/check", i], capture_output=True, text=True)
        lines = [l for l in r.stdout.splitlines() if l.startswith(("VIOLATION", "violation", "HARNESS", "KNOWN", "FLAKY"))]
        print("%s rc=%d" % (i, r.returncode)); print("\n".join("   " + l[:260] for l in lines[:8]))
        if r.returncode == 2: print(r.stdout[-1500:], r.stderr[-1500:])
finally:
    subprocess.run(["git", "-C", "/repo", "checkout", "--", "."])

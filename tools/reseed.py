#!/venv/bin/python
"""Re-run the registered quick checks against every kept seeded change (/verif/seeded/*/patch.diff)
with the machinery as it is now: apply the patch to /repo, run the checks recorded in meta.json
(or those given with --checks), restore /repo, update meta.json and write seeded/RESULTS.md.

usage: tools/reseed.py [name-prefix ...] [--checks C01,C02] [--primary-only]
"""
import json
import os
import subprocess
import sys
import time

VERIF = os.path.dirname(os.path.dirname(os.path.abspath(__file__)))
SEEDED = os.path.join(VERIF, "seeded")


def sh(cmd, **kw):
    return subprocess.run(cmd, capture_output=True, text=True, **kw)


def main():
    args = [a for a in sys.argv[1:] if not a.startswith("--")]
    checks_override = None
    primary_only = "--primary-only" in sys.argv
    for a in sys.argv[1:]:
        if a.startswith("--checks"):
            checks_override = sys.argv[sys.argv.index(a) + 1].split(",") if a == "--checks" else a.split("=", 1)[1].split(",")
    args = [a for a in args if not (checks_override and a == ",".join(checks_override))]
    names = sorted(d for d in os.listdir(SEEDED) if os.path.isdir(os.path.join(SEEDED, d)))
    if args:
        names = [n for n in names if any(n.startswith(p) for p in args)]
    head = sh(["git", "-C", VERIF, "rev-parse", "--short", "HEAD"]).stdout.strip()
    for name in names:
        d = os.path.join(SEEDED, name)
        meta = json.load(open(os.path.join(d, "meta.json")))
        known = list(meta.get("checks_quick", {}).keys()) or list(meta.get("candidate_checks", [])) or [meta["property"]]
        checks = checks_override or ([meta["property"]] if primary_only else known)
        st = sh(["git", "-C", "/repo", "status", "--porcelain"])
        assert st.stdout.strip() == "", "/repo not clean: " + st.stdout
        a = sh(["git", "-C", "/repo", "apply", os.path.join(d, "patch.diff")])
        assert a.returncode == 0, (name, a.stderr)
        res = dict(meta.get("checks_quick", {}))
        lazy = "--lazy" in sys.argv  # primary first; the other candidates only if the primary stays silent
        if lazy:
            checks = [meta["property"]] + [c for c in checks if c != meta["property"]]
            res = {}  # only results of the current machinery are kept
        try:
            for c in checks:
                if lazy and c != meta["property"] and res.get(meta["property"], {}).get("rc") == 1 \
                        and res.get(meta["property"], {}).get("machinery") == head:
                    continue
                t = time.time()
                p = sh([os.path.join(VERIF, "check"), c, "--tier", "quick"], timeout=7200)
                lines = [l for l in p.stdout.splitlines() if l.startswith(("VIOLATION", "violation key", "HARNESS", "FLAKY"))]
                res[c] = {"rc": p.returncode, "wall_s": round(time.time() - t, 1), "lines": [l[:300] for l in lines[:6]],
                          "machinery": head}
        finally:
            sh(["git", "-C", "/repo", "checkout", "--", "."])
        meta["checks_quick"] = res
        meta["detected_by"] = sorted(c for c, v in res.items() if v["rc"] == 1)
        json.dump(meta, open(os.path.join(d, "meta.json"), "w"), indent=1)
        print(name, {c: res[c]["rc"] for c in checks if c in res}, flush=True)
    write_results()


def write_results():
    rows = []
    for name in sorted(os.listdir(SEEDED)):
        mp = os.path.join(SEEDED, name, "meta.json")
        if not os.path.exists(mp):
            continue
        m = json.load(open(mp))
        det = ", ".join(m.get("detected_by", [])) or "—"
        others = ", ".join("%s:rc%s" % (c, v["rc"]) for c, v in m.get("checks_quick", {}).items() if v["rc"] != 1) or ""
        rows.append("| %s | %s | %s | %s | %s |" % (name, m["property"], (m.get("needs") or "").replace("|", "/").replace("\n", " ")[:260],
                                                   det, others))
    with open(os.path.join(SEEDED, "RESULTS.md"), "w") as f:
        f.write("# Seeded property-breaking changes and the checks that report them\n\n"
                "Each change was written by an independent sub-agent that saw only the property text and a scratch\n"
                "worktree; it was kept after `tools/seeded.py` confirmed in a scratch worktree that it applies, that\n"
                "the pinned suite still passes (`missing_from_pass=0`) and that its demonstration passes on the clean\n"
                "tree and fails with the change.  `detected by` = quick checks that exit 1 with a VIOLATION line when\n"
                "the patch is applied to /repo (and exit 0 again after `git checkout -- .`).\n\n"
                "| change | property | needs | detected by (quick) | also run, not reporting |\n|---|---|---|---|---|\n")
        f.write("\n".join(rows) + "\n")


if __name__ == "__main__":
    if "--table-only" in sys.argv:
        write_results()
    else:
        main()

#!/venv/bin/python
"""Run the repository's pinned test suite on a tree and compare with BASELINE.json's
stable_pass set.  usage: tools/baseline.py [repo_dir] [-n N]
exit 0 iff every stable_pass test still passes."""
import json
import os
import subprocess
import sys
import tempfile
import xml.etree.ElementTree as ET


def main():
    repo = "/repo"
    n = "8"
    args = sys.argv[1:]
    while args:
        a = args.pop(0)
        if a == "-n":
            n = args.pop(0)
        else:
            repo = a
    base = json.load(open("/root/.vp/BASELINE.json"))
    stable = set(base["stable_pass"])
    with tempfile.TemporaryDirectory() as td:
        xml = os.path.join(td, "r.xml")
        cmd = ["/venv/bin/python", "-m", "pytest", "-q", "-p", "no:cacheprovider", "--timeout=900",
               "--continue-on-collection-errors", "--junitxml=" + xml]
        if n != "0":
            cmd += ["-n", n]
        env = dict(os.environ)
        env["PYTHONPATH"] = repo  # make sure the given tree is the one imported
        env["PYTHONDONTWRITEBYTECODE"] = "1"
        p = subprocess.run(cmd, cwd=repo, env=env, capture_output=True, text=True)
        passed = set()
        failed = set()
        if os.path.exists(xml):
            for tc in ET.parse(xml).getroot().iter("testcase"):
                name = "%s::%s" % (tc.get("classname"), tc.get("name"))
                bad = any(ch.tag in ("failure", "error", "skipped") for ch in tc)
                (failed if bad else passed).add(name)
    missing = sorted(stable - passed)
    print("passed=%d failed=%d stable_pass=%d missing_from_pass=%d"
          % (len(passed), len(failed), len(stable), len(missing)))
    for m in missing[:30]:
        print("  NOT PASSING:", m)
    newly = sorted(passed - stable)
    if newly:
        print("  newly passing (not in baseline): %d e.g. %s" % (len(newly), newly[:3]))
    if not passed:
        print(p.stdout[-3000:], p.stderr[-2000:])
    return 0 if not missing else 1


if __name__ == "__main__":
    sys.exit(main())

#!/venv/bin/python
"""Regenerates /verif/golden/tiny_curves.json: small pairing-friendly curves that satisfy the
tower / twist conventions py_ecc hard-wires (DESIGN 5.2), with generators of the chosen
prime-order subgroups.  Deterministic.  usage: tools/find_tiny_curves.py [--search]

The table is *validated* every time it is loaded: the substituted library modules run their
own import-time sanity checks on it and mc.tinypair re-checks orders with the model."""
import json
import os
import sys

sys.path.insert(0, os.path.dirname(os.path.dirname(os.path.abspath(__file__))))
from mc.model.zp import Fp, Fpk  # noqa: E402
from mc.model.ec import Curve  # noqa: E402


def isqrt_exact(n):
    import math
    s = math.isqrt(n)
    return s if s * s == n else None


def naf(n):
    out = []
    while n:
        if n & 1:
            d = 2 - (n % 4)
            n -= d
        else:
            d = 0
        out.append(d)
        n //= 2
    return out


def twist_orders(p, t):
    t2 = t * t - 2 * p
    f2 = isqrt_exact((4 * p * p - t2 * t2) // 3)
    assert f2 is not None and 3 * f2 * f2 == 4 * p * p - t2 * t2
    traces = [t2, -t2, (t2 + 3 * f2) // 2, -(t2 + 3 * f2) // 2, (t2 - 3 * f2) // 2, -(t2 - 3 * f2) // 2]
    return [p * p + 1 - tr for tr in traces]


def find_point(E, start=1):
    F = E.F
    c = start
    while True:
        x = c if F.k == 1 else (c % F.p, 1 + c // F.p)
        pts = E.lift_x(F.el(x))
        if pts:
            yield pts[0]
        c += 1


def gen_of_order(E, n_group, r, start=1):
    """A point of exact prime order r in a group E of order n_group (r | n_group)."""
    cof = n_group // r
    for P in find_point(E, start):
        G = E.mul(P, cof)
        if G is not None and E.mul(G, r) is None:
            return G


def build(name, family, x, b, r_sub):
    if family == "BN":
        p = 36 * x**4 + 36 * x**3 + 24 * x**2 + 6 * x + 1
        r = 36 * x**4 + 36 * x**3 + 18 * x**2 + 6 * x + 1
        t = 6 * x * x + 1
        mc12 = [82, 0, 0, 0, 0, 0, -18, 0, 0, 0, 0, 0]
        xi = (9, 1)
        loop = 6 * x + 2
        enc = naf(loop)
    else:
        r = x**4 - x**2 + 1
        p = (x - 1) ** 2 * r // 3 + x
        t = x + 1
        mc12 = [2, 0, 0, 0, 0, 0, -2, 0, 0, 0, 0, 0]
        xi = (1, 1)
        loop = abs(x)
        enc = [int(c) for c in bin(loop)[2:][::-1]]
    assert p % 4 == 3 and r % r_sub == 0
    F1, F2 = Fp(p), Fpk(p, (1, 0))
    n1 = p + 1 - t
    assert n1 % r == 0
    E1 = Curve(F1, 0, b)
    # the curve with this b must have order n1 (not a twist of it)
    for P in list(zip(range(3), find_point(E1))):
        assert E1.mul(P[1], n1) is None, "b gives a different twist over Fp"
    b2 = F2.div((b, 0), xi) if family == "BN" else F2.mul((b, 0), xi)
    E2 = Curve(F2, 0, b2)
    cands = [n for n in twist_orders(p, t) if n % r == 0]
    n2 = None
    for n in cands:
        ok = all(E2.mul(P, n) is None for _, P in zip(range(4), find_point(E2)))
        if ok:
            n2 = n
    assert n2 is not None, "hard-wired twist type has no order divisible by r"
    G1 = gen_of_order(E1, n1, r_sub)
    G2 = gen_of_order(E2, n2, r_sub)
    assert sum(e * 2**i for i, e in enumerate(enc)) == loop
    return {
        "name": name, "family": family, "x": x, "p": p, "r_full": r, "r": r_sub, "b": b,
        "b2": list(b2), "n1": n1, "n2": n2, "G1": list(G1), "G2": [list(G2[0]), list(G2[1])],
        "fq12_modulus_coeffs": mc12, "ate_loop_count": loop,
        "log_ate_loop_count": loop.bit_length() - 2, "pseudo_binary_encoding": enc,
    }


def main():
    out = [
        build("BN-T", "BN", 7, 29, 99709),
        build("BLS-T1-13", "BLS", 232, 4, 13),
        build("BLS-T1-6037", "BLS", 232, 4, 6037),
        build("BLS-T2", "BLS", -56, 4, 9831361),
    ]
    path = os.path.join(os.path.dirname(os.path.dirname(os.path.abspath(__file__))), "golden",
                        "tiny_curves.json")
    os.makedirs(os.path.dirname(path), exist_ok=True)
    with open(path, "w") as f:
        json.dump(out, f, indent=1)
        f.write("\n")
    for c in out:
        print(c["name"], c["p"], c["r"], c["G1"], c["G2"])


if __name__ == "__main__":
    main()
